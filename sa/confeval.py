"""Symbolic evaluation of the configuration normalisers (configure_v1 / configure_v2).

The normalisers are plain dictionary programs: they test for keys, copy values from one nested
dictionary into another, fill in defaults. Instead of matching their statements, the rules of C18 run
them on a *symbolic* configuration and look at the dictionary that comes out:

* a value read from the input file is a `Sym(path)`; it is truthy, not None, and compares equal only
  to itself;
* whether an optional key is present (`k in config[sec]`, `.get(k, d)`) is decided by the scenario
  (`present` / `absent` sets, `default_presence` for the rest);
* tests the scenario cannot decide (`"ROMS" in module`, `release_type == "continuous"`, wildcard
  tests) fork the evaluation - every outcome is returned with the choices that led to it;
* helper functions of the same module are interpreted (any number of returns), other calls yield an
  `Opaque` value that remembers which inputs it was computed from;
* a loop over a symbolic collection runs its body once with a generic element `Sym(path + "*")`.

Nothing of the repository is executed: this is an interpreter over the syntax tree with symbolic
leaves.
"""

from __future__ import annotations

import ast
from typing import Any, Optional

from .program import AnalysisError, AnchorMissing, Program, unparse


class Sym:
    __slots__ = ("path",)

    def __init__(self, path):
        self.path = tuple(path)

    def __repr__(self):
        return "<" + ".".join(str(p) for p in self.path) + ">"

    def __eq__(self, o):
        return isinstance(o, Sym) and o.path == self.path

    def __hash__(self):
        return hash(("Sym", self.path))


class SymRest:
    """A copy of a symbolic sub-dictionary with some keys popped."""

    def __init__(self, path, popped=()):
        self.path = tuple(path)
        self.popped = set(popped)

    def __repr__(self):
        return f"<{'.'.join(map(str, self.path))} minus {sorted(self.popped)}>"

    def __eq__(self, o):
        return isinstance(o, SymRest) and o.path == self.path and o.popped == self.popped

    def __hash__(self):
        return hash(("SymRest", self.path, tuple(sorted(self.popped))))


class Opaque:
    def __init__(self, syms=(), text=""):
        self.syms = frozenset(syms)
        self.text = text

    def __repr__(self):
        return f"opaque[{self.text}]{sorted(repr(s) for s in self.syms)}"


def text_of(v) -> str:
    """Canonical text of a value (independent of the names of local variables)."""
    if isinstance(v, Opaque):
        return v.text
    if isinstance(v, (Sym, SymRest)):
        return repr(v)
    if isinstance(v, (list, tuple)):
        return "[" + ", ".join(text_of(x) for x in v) + "]"
    if isinstance(v, dict):
        return "{" + ", ".join(f"{text_of(k)}: {text_of(x)}" for k, x in v.items()) + "}"
    return repr(v)


def syms_of(v) -> set:
    if isinstance(v, Sym):
        return {v}
    if isinstance(v, SymRest):
        return {Sym(v.path)}
    if isinstance(v, Opaque):
        return set(v.syms)
    if isinstance(v, dict):
        out = set()
        for k, x in v.items():
            out |= syms_of(k) | syms_of(x)
        return out
    if isinstance(v, (list, tuple, set)):
        out = set()
        for x in v:
            out |= syms_of(x)
        return out
    return set()


class Missing(Exception):
    """Subscript of a key the scenario declares absent (KeyError at run time)."""


class Stopped(Exception):
    """raise reached."""


class Fork(Exception):
    def __init__(self, key):
        self.key = key


class Unsupported(Exception):
    pass


class _Return(Exception):
    def __init__(self, v):
        self.v = v


class _Continue(Exception):
    pass


class _Break(Exception):
    pass


LOGGERS = ("logger", "logging", "warnings", "print")


class Scenario:
    def __init__(self, present=(), absent=(), default_presence: Optional[bool] = True, none_paths=()):
        self.present = {tuple(p) for p in present}
        self.absent = {tuple(p) for p in absent}
        self.default_presence = default_presence
        self.none_paths = {tuple(p) for p in none_paths}
        self.dict_leaves: set = set()  # sections whose entries are dictionaries themselves

    def has(self, path) -> Optional[bool]:
        path = tuple(path)
        if path in self.present:
            return True
        if path in self.absent:
            return False
        # a key below an absent section is absent
        for k in range(1, len(path)):
            if path[:k] in self.absent:
                return False
        return self.default_presence


class ConfEval:
    def __init__(self, prog: Program, module: str, scenario: Scenario, choices: dict, max_depth: int = 4, call_hook=None):
        self.call_hook = call_hook
        self.prog = prog
        self.module = module
        self.sc = scenario
        self.choices = choices
        self.max_depth = max_depth
        self.depth = 0
        self.overlay: dict = {}  # path of a symbolic dictionary -> {key: value written by the program}

    # ------------------------------------------------------------------
    def choice(self, node: ast.AST, what: str = ""):
        key = (getattr(node, "lineno", 0), getattr(node, "col_offset", 0), what)
        if key not in self.choices:
            raise Fork(key)
        return self.choices[key]

    def truth(self, v, node) -> bool:
        if isinstance(v, bool) or v is None or isinstance(v, (int, float, str, dict, list, tuple, set)):
            return bool(v)
        if isinstance(v, (Sym, SymRest)):
            return tuple(v.path) not in self.sc.none_paths  # symbolic file values are non-empty
        if isinstance(v, Opaque):
            return self.choice(node, "truth") if not v.syms else True
        return self.choice(node, "truth")

    # ------------------------------------------------------------------
    def ev(self, e: ast.expr, env: dict):
        if isinstance(e, ast.Constant):
            return e.value
        if isinstance(e, ast.Name):
            if e.id in env:
                return env[e.id]
            if e.id in ("True", "False", "None"):
                return {"True": True, "False": False, "None": None}[e.id]
            return Opaque((), e.id)
        if isinstance(e, ast.JoinedStr):
            s = set()
            for v in e.values:
                if isinstance(v, ast.FormattedValue):
                    s |= syms_of(self.ev(v.value, env))
            return Opaque(s, "fstring")
        if isinstance(e, ast.Dict):
            out = {}
            for k, v in zip(e.keys, e.values):
                if k is None:
                    sub = self.ev(v, env)
                    if isinstance(sub, dict):
                        out.update(sub)
                    else:
                        raise Unsupported(unparse(e))
                else:
                    out[self._key(self.ev(k, env))] = self.ev(v, env)
            return out
        if isinstance(e, (ast.List, ast.Tuple)):
            return [self.ev(x, env) for x in e.elts]
        if isinstance(e, ast.Set):
            return [self.ev(x, env) for x in e.elts]
        if isinstance(e, ast.Subscript):
            b = self.ev(e.value, env)
            if isinstance(e.slice, ast.Slice):
                return Opaque(syms_of(b), unparse(e))
            k = self.ev(e.slice, env)
            return self.subscript(b, k, e)
        if isinstance(e, ast.Attribute):
            b = self.ev(e.value, env)
            return Opaque(syms_of(b), f"{text_of(b)}.{e.attr}")
        if isinstance(e, ast.UnaryOp):
            v = self.ev(e.operand, env)
            if isinstance(e.op, ast.Not):
                return not self.truth(v, e.operand)
            if isinstance(v, (int, float)) and not isinstance(v, bool):
                return -v if isinstance(e.op, ast.USub) else v
            return Opaque(syms_of(v), unparse(e)[:40])
        if isinstance(e, ast.BoolOp):
            if isinstance(e.op, ast.And):
                v = True
                for x in e.values:
                    v = self.ev(x, env)
                    if not self.truth(v, x):
                        return v
                return v
            v = False
            for x in e.values:
                v = self.ev(x, env)
                if self.truth(v, x):
                    return v
            return v
        if isinstance(e, ast.IfExp):
            return self.ev(e.body, env) if self.truth(self.ev(e.test, env), e.test) else self.ev(e.orelse, env)
        if isinstance(e, ast.Compare):
            left = self.ev(e.left, env)
            res = True
            for op, cn in zip(e.ops, e.comparators):
                right = self.ev(cn, env)
                r = self.compare(op, left, right, e)
                if not r:
                    return False
                left = right
            return res
        if isinstance(e, ast.BinOp):
            a, b = self.ev(e.left, env), self.ev(e.right, env)
            if isinstance(a, (int, float, str)) and isinstance(b, (int, float, str)) and not isinstance(a, bool):
                try:
                    return {ast.Add: lambda: a + b, ast.Sub: lambda: a - b, ast.Mult: lambda: a * b}[type(e.op)]()
                except Exception:  # noqa: BLE001
                    pass
            if isinstance(a, dict) and isinstance(b, dict) and isinstance(e.op, ast.BitOr):
                return {**a, **b}
            return Opaque(syms_of(a) | syms_of(b), unparse(e)[:40])
        if isinstance(e, ast.Call):
            return self.call(e, env)
        if isinstance(e, (ast.ListComp, ast.DictComp, ast.GeneratorExp, ast.SetComp)):
            return self.comprehension(e, env)
        if isinstance(e, ast.Starred):
            return self.ev(e.value, env)
        if isinstance(e, ast.NamedExpr) and isinstance(e.target, ast.Name):
            v = self.ev(e.value, env)
            env[e.target.id] = v
            return v
        raise Unsupported(unparse(e)[:80])

    @staticmethod
    def _hashable(k) -> bool:
        try:
            hash(k)
            return True
        except TypeError:
            return False

    def _key(self, k):
        if isinstance(k, (str, int, float, bool, type(None), Sym)):
            return k
        if isinstance(k, Opaque):
            return ("opaque", k.text)
        raise Unsupported(f"dictionary key {k!r}")

    def subscript(self, b, k, node):
        if isinstance(b, Sym) and b.path in self.overlay and self._hashable(k) and k in self.overlay[b.path]:
            return self.overlay[b.path][k]
        if isinstance(b, Sym):
            if isinstance(k, str) or isinstance(k, int):
                path = b.path + (k,)
                if isinstance(k, str) and self.sc.has(path) is False and path in self.sc.absent:
                    raise Missing(".".join(map(str, path)))
                return Sym(path)
            return Sym(b.path + ("*",))
        if isinstance(b, SymRest):
            return Sym(b.path + (k if isinstance(k, (str, int)) else "*",))
        if isinstance(b, dict):
            kk = self._key(k)
            if kk in b:
                return b[kk]
            raise Missing(f"local dict key {kk!r}")
        if isinstance(b, (list, tuple)):
            if isinstance(k, int) and -len(b) <= k < len(b):
                return b[k]
            return Opaque(syms_of(b), f"{text_of(b)}[{text_of(k)}]")
        return Opaque(syms_of(b) | syms_of(k), f"{text_of(b)}[{text_of(k)}]")

    def compare(self, op, a, b, node) -> bool:
        if isinstance(op, (ast.In, ast.NotIn)):
            neg = isinstance(op, ast.NotIn)
            if isinstance(b, Sym) and b.path in self.overlay and self._hashable(a) and a in self.overlay[b.path]:
                return True ^ neg
            if isinstance(b, Sym) and isinstance(a, str):
                if len(b.path) >= 2 and not (len(b.path) == 2 and b.path[0] in self.sc.dict_leaves):
                    # section.key is a leaf of the file (a string, a list): substring / element test
                    return self.choice(node, f"contains:{b!r}:{a}") ^ neg
                h = self.sc.has(b.path + (a,))
                if h is None:
                    h = self.choice(node, f"in:{b!r}:{a}")
                return h ^ neg
            if isinstance(b, SymRest) and isinstance(a, str):
                if a in b.popped:
                    return False ^ neg
                h = self.sc.has(b.path + (a,))
                if h is None:
                    h = self.choice(node, f"in:{b!r}:{a}")
                return h ^ neg
            if isinstance(b, dict):
                return (self._key(a) in b) ^ neg
            if isinstance(b, (list, tuple)):
                if all(isinstance(x, (str, int, float, bool, type(None))) for x in b) and isinstance(a, (str, int, float, bool, type(None))):
                    return (a in b) ^ neg
                if any(x is a or (isinstance(a, Sym) and x == a) for x in b):
                    return True ^ neg
                if isinstance(a, Sym) and all(isinstance(x, str) for x in b):
                    return self.choice(node, f"in-list:{a!r}:{sorted(b)!r}") ^ neg
                return self.choice(node, "in-list") ^ neg
            if isinstance(b, str) and isinstance(a, str):
                return (a in b) ^ neg
            return self.choice(node, "in") ^ neg
        if isinstance(op, (ast.Is, ast.IsNot)):
            neg = isinstance(op, ast.IsNot)
            if b is None:
                if isinstance(a, (Sym, SymRest)):
                    return (tuple(a.path) in self.sc.none_paths) ^ neg
                if isinstance(a, Opaque):
                    return False ^ neg
                return (a is None) ^ neg
            return (a is b) ^ neg
        if isinstance(op, (ast.Eq, ast.NotEq)):
            neg = isinstance(op, ast.NotEq)
            conc = (str, int, float, bool, type(None))
            if isinstance(a, conc) and isinstance(b, conc):
                return (a == b) ^ neg
            if isinstance(a, Sym) and isinstance(b, Sym):
                return (a == b) ^ neg
            # the undecided fact is "a equals b"; `!=` reads its negation (so a rule can tell the two apart)
            if isinstance(a, Sym) and isinstance(b, conc):
                return self.choice(node, f"eq:{a!r}:{b!r}") ^ neg
            if isinstance(b, Sym) and isinstance(a, conc):
                return self.choice(node, f"eq:{b!r}:{a!r}") ^ neg
            return self.choice(node, "eq") ^ neg
        return self.choice(node, "cmp")

    # ------------------------------------------------------------------
    def call(self, e: ast.Call, env: dict):
        fn = unparse(e.func)
        if self.call_hook is not None:
            r = self.call_hook(e, env, self)
            if r is not NotImplemented:
                return r
        if fn.split(".")[0] in LOGGERS:
            for a in e.args:
                self.ev(a, env)
            return None
        # dictionary construction
        if fn == "dict":
            out = {}
            for a in e.args:
                v = self.ev(a, env)
                if isinstance(v, dict):
                    out.update(v)
                elif isinstance(v, (Sym, SymRest)):
                    out = SymRest(v.path) if not out else out
                else:
                    raise Unsupported(unparse(e)[:60])
            for k in e.keywords:
                v = self.ev(k.value, env)
                if k.arg is None:
                    if isinstance(v, dict) and isinstance(out, dict):
                        out.update(v)
                    else:
                        raise Unsupported(unparse(e)[:60])
                elif isinstance(out, dict):
                    out[k.arg] = v
            return out
        if fn == "dict.fromkeys" and len(e.args) in (1, 2):
            keys = self.ev(e.args[0], env)
            val = self.ev(e.args[1], env) if len(e.args) == 2 else None
            if isinstance(keys, dict):
                return {k: val for k in keys}
            if isinstance(keys, (list, tuple)):
                return {self._key(k): val for k in keys}
        if fn in ("list", "tuple", "sorted", "set") and len(e.args) == 1:
            v = self.ev(e.args[0], env)
            if isinstance(v, (list, tuple)):
                return list(v)
            if isinstance(v, dict):
                return list(v.keys())
            if isinstance(v, (Sym, SymRest)) and fn != "sorted":
                return v
            return Opaque(syms_of(v), f"{fn}({text_of(v)})")
        if fn == "str" and len(e.args) == 1:
            v = self.ev(e.args[0], env)
            return v if isinstance(v, str) else Opaque(syms_of(v), f"str({text_of(v)})")
        if fn in ("any", "all") and len(e.args) == 1:
            v = self.ev(e.args[0], env)
            if isinstance(v, (list, tuple)):
                ts = [self.truth(x, e) if not isinstance(x, bool) else x for x in v]
                return any(ts) if fn == "any" else all(ts)
        if fn == "len" and len(e.args) == 1:
            v = self.ev(e.args[0], env)
            return len(v) if isinstance(v, (list, tuple, dict, str)) else Opaque(syms_of(v), "len")
        if fn == "isinstance" and len(e.args) == 2:
            v = self.ev(e.args[0], env)
            t = unparse(e.args[1])
            if isinstance(v, dict):
                return "dict" in t
            if isinstance(v, (list, tuple)):
                return "list" in t or "tuple" in t
            if isinstance(v, str):
                return "str" in t
            return self.choice(e, "isinstance")
        # methods
        if isinstance(e.func, ast.Attribute):
            recv = self.ev(e.func.value, env)
            m = e.func.attr
            args = [self.ev(a, env) for a in e.args]
            if isinstance(recv, dict):
                if m == "get":
                    return recv.get(self._key(args[0]), args[1] if len(args) > 1 else None)
                if m == "copy":
                    return dict(recv)
                if m == "pop":
                    k = self._key(args[0])
                    if k in recv:
                        return recv.pop(k)
                    if len(args) > 1:
                        return args[1]
                    raise Missing(f"pop of local key {k!r}")
                if m == "keys":
                    return list(recv.keys())
                if m == "values":
                    return list(recv.values())
                if m == "items":
                    return [[k, v] for k, v in recv.items()]
                if m == "update":
                    for a in args:
                        if isinstance(a, dict):
                            recv.update(a)
                        else:
                            raise Unsupported("update with a non-dict")
                    for k in e.keywords:
                        recv[k.arg] = self.ev(k.value, env)
                    return None
                if m == "setdefault":
                    return recv.setdefault(self._key(args[0]), args[1] if len(args) > 1 else None)
            if isinstance(recv, Sym) and m == "get" and args and recv.path in self.overlay and self._hashable(args[0]) and args[0] in self.overlay[recv.path]:
                return self.overlay[recv.path][args[0]]
            if isinstance(recv, Sym) and m == "setdefault" and args and isinstance(args[0], str):
                ov = self.overlay.setdefault(recv.path, {})
                if args[0] in ov:
                    return ov[args[0]]
                h = self.sc.has(recv.path + (args[0],))
                if h is None:
                    h = self.choice(e, f"setdefault:{recv!r}:{args[0]}")
                if h:
                    return Sym(recv.path + (args[0],))
                ov[args[0]] = args[1] if len(args) > 1 else None
                return ov[args[0]]
            if isinstance(recv, Sym) and m == "update" and args and isinstance(args[0], dict):
                self.overlay.setdefault(recv.path, {}).update(args[0])
                return None
            if isinstance(recv, (Sym, SymRest)):
                if m == "get" and args and isinstance(args[0], str):
                    path = tuple(recv.path) + (args[0],)
                    if isinstance(recv, SymRest) and args[0] in recv.popped:
                        return args[1] if len(args) > 1 else None
                    h = self.sc.has(path)
                    if h is None:
                        h = self.choice(e, f"get:{recv!r}:{args[0]}")
                    return Sym(path) if h else (args[1] if len(args) > 1 else None)
                if m == "get" and args:
                    return Sym(tuple(recv.path) + ("*",))
                if m == "copy":
                    return SymRest(recv.path, getattr(recv, "popped", ()))
                if m == "pop" and args and isinstance(args[0], str):
                    if isinstance(recv, SymRest):
                        recv.popped.add(args[0])
                    return Sym(tuple(recv.path) + (args[0],))
                if m in ("keys", "values", "items"):
                    return Opaque({Sym(recv.path)}, m)
            if isinstance(recv, list) and m == "append":
                recv.append(args[0])
                return None
            if isinstance(recv, str) and m in ("lower", "upper", "strip") and not args:
                return getattr(recv, m)()
            kw = [(k.arg, self.ev(k.value, env)) for k in e.keywords]
            txt = f"{text_of(recv)}.{m}(" + ", ".join([text_of(a) for a in args] + [f"{n}={text_of(v)}" for n, v in kw]) + ")"
            return Opaque(syms_of(recv) | syms_of(args) | syms_of([v for _, v in kw]), txt)
        # helper functions of the same module
        if isinstance(e.func, ast.Name) and self.depth < self.max_depth:
            try:
                h = self.prog.func(f"{self.module}.{e.func.id}")
            except (AnchorMissing, AnalysisError):
                h = None
            if h is not None:
                params = [a.arg for a in h.node.args.posonlyargs + h.node.args.args + h.node.args.kwonlyargs]
                dflt = h.defaults()
                new = {}
                for p_, a in zip(params, e.args):
                    new[p_] = self.ev(a, env)
                for k in e.keywords:
                    if k.arg is not None:
                        new[k.arg] = self.ev(k.value, env)
                for p_ in params:
                    if p_ not in new:
                        if p_ in dflt:
                            new[p_] = self.ev(dflt[p_], {})
                        else:
                            raise Unsupported(f"call {unparse(e)[:50]}: argument {p_} missing")
                self.depth += 1
                try:
                    self.block(h.node.body, new)
                    return None
                except _Return as r:
                    return r.v
                finally:
                    self.depth -= 1
        args = [self.ev(a, env) for a in e.args]
        kw = [(k.arg, self.ev(k.value, env)) for k in e.keywords]
        txt = f"{fn}(" + ", ".join([text_of(a) for a in args] + [f"{n}={text_of(v)}" for n, v in kw]) + ")"
        return Opaque(syms_of(args) | syms_of([v for _, v in kw]), txt)

    def comprehension(self, e, env):
        gens = e.generators
        if len(gens) != 1 or not isinstance(gens[0].target, (ast.Name, ast.Tuple)):
            raise Unsupported(unparse(e)[:60])
        g = gens[0]
        it = self.ev(g.iter, env)
        items = self._iter_items(it)
        out_list, out_dict = [], {}
        for x in items:
            env2 = dict(env)
            self.assign(g.target, x, env2)
            if all(self.truth(self.ev(c, env2), c) for c in g.ifs):
                if isinstance(e, ast.DictComp):
                    out_dict[self._key(self.ev(e.key, env2))] = self.ev(e.value, env2)
                else:
                    out_list.append(self.ev(e.elt, env2))
        return out_dict if isinstance(e, ast.DictComp) else out_list

    def _iter_items(self, it):
        if isinstance(it, dict):
            return list(it.keys())
        if isinstance(it, (list, tuple)):
            return list(it)
        if isinstance(it, str):
            return list(it)
        if isinstance(it, (Sym, SymRest)):
            return [Sym(tuple(it.path) + ("*",))]  # one generic element
        if isinstance(it, Opaque):
            return [Opaque(it.syms, "element")]
        raise Unsupported(f"iteration over {it!r}")

    # ------------------------------------------------------------------
    def assign(self, t: ast.expr, v, env: dict) -> None:
        if isinstance(t, ast.Name):
            env[t.id] = v
            return
        if isinstance(t, (ast.Tuple, ast.List)):
            if isinstance(v, (list, tuple)) and len(v) == len(t.elts):
                for a, b in zip(t.elts, v):
                    self.assign(a, b, env)
                return
            for a in t.elts:
                self.assign(a, Opaque(syms_of(v), "unpacked"), env)
            return
        if isinstance(t, ast.Subscript):
            b = self.ev(t.value, env)
            k = self.ev(t.slice, env)
            if isinstance(b, dict):
                b[self._key(k)] = v
                return
            if isinstance(b, Sym) and self._hashable(k):
                self.overlay.setdefault(b.path, {})[k] = v
                self.input_writes.append((b, k, v))
                return
            if isinstance(b, (Sym, SymRest, Opaque)):
                self.input_writes.append((b, k, v))
                return
            raise Unsupported(f"store into {b!r}")
        if isinstance(t, ast.Attribute):
            return
        raise Unsupported(unparse(t)[:60])

    input_writes: list = []

    def block(self, stmts, env: dict) -> None:
        for st in stmts:
            self.stmt(st, env)

    def stmt(self, st: ast.stmt, env: dict) -> None:
        if isinstance(st, ast.Expr):
            if not isinstance(st.value, ast.Constant):
                self.ev(st.value, env)
            return
        if isinstance(st, ast.Assign):
            v = self.ev(st.value, env)
            for t in st.targets:
                self.assign(t, v, env)
            return
        if isinstance(st, ast.AnnAssign):
            if st.value is not None:
                self.assign(st.target, self.ev(st.value, env), env)
            return
        if isinstance(st, ast.AugAssign):
            cur = self.ev(ast.copy_location(_as_load(st.target), st.target), env)
            rhs = self.ev(st.value, env)
            if isinstance(cur, (int, float, str)) and isinstance(rhs, (int, float, str)) and isinstance(st.op, ast.Add):
                self.assign(st.target, cur + rhs, env)
            elif isinstance(cur, dict) and isinstance(rhs, dict) and isinstance(st.op, ast.BitOr):
                cur.update(rhs)  # in place, like dict.__ior__
            else:
                self.assign(st.target, Opaque(syms_of(cur) | syms_of(rhs), "aug"), env)
            return
        if isinstance(st, ast.If):
            self.block(st.body if self.truth(self.ev(st.test, env), st.test) else st.orelse, env)
            return
        if isinstance(st, ast.For):
            items = self._iter_items(self.ev(st.iter, env))
            for x in items:
                self.assign(st.target, x, env)
                try:
                    self.block(st.body, env)
                except _Continue:
                    continue
                except _Break:
                    break
            else:
                self.block(st.orelse, env)
            return
        if isinstance(st, ast.While):
            raise Unsupported("while loop")
        if isinstance(st, ast.Return):
            raise _Return(self.ev(st.value, env) if st.value is not None else None)
        if isinstance(st, ast.Raise):
            raise Stopped()
        if isinstance(st, ast.Continue):
            raise _Continue()
        if isinstance(st, ast.Break):
            raise _Break()
        if isinstance(st, ast.Try):
            # the protected body is assumed not to fail (file access of a warm start); handlers are stops
            self.block(st.body, env)
            self.block(st.orelse, env)
            self.block(st.finalbody, env)
            return
        if isinstance(st, ast.With):
            for it_ in st.items:
                v = self.ev(it_.context_expr, env)
                if it_.optional_vars is not None:
                    self.assign(it_.optional_vars, v, env)
            self.block(st.body, env)
            return
        if isinstance(st, (ast.Pass, ast.Import, ast.ImportFrom, ast.Assert, ast.Global, ast.Nonlocal, ast.Delete)):
            return
        raise Unsupported(type(st).__name__)


def _as_load(t: ast.expr) -> ast.expr:
    import copy

    t2 = copy.deepcopy(t)
    for n in ast.walk(t2):
        if hasattr(n, "ctx"):
            n.ctx = ast.Load()
    return t2


def run_function(prog: Program, module: str, func: str, make_args, scenario: Scenario, max_outcomes: int = 4096, call_hook=None):
    """Evaluate `module.func` for every resolution of the undecided tests.
    make_args() -> dict of argument values (fresh objects each time).
    -> [{"choices", "status", "result", "args", "detail"}]"""
    fi = prog.func(f"{module}.{func}")
    pending = [dict()]
    outcomes = []
    while pending and len(outcomes) < max_outcomes:
        ch = pending.pop()
        ev = ConfEval(prog, module, scenario, ch, call_hook=call_hook)
        ev.input_writes = []
        args = make_args()
        status, result, detail = "ok", None, ""
        try:
            try:
                ev.block(fi.node.body, args)
            except _Return as r:
                result = r.v
        except Fork as f:
            pending.append({**ch, f.key: True})
            pending.append({**ch, f.key: False})
            continue
        except Missing as m:
            status, detail = "missing", str(m)
        except Stopped:
            status = "stopped"
        except Unsupported as u:
            status, detail = "unsupported", str(u)
        outcomes.append({"choices": ch, "status": status, "result": result, "args": args, "detail": detail, "input_writes": ev.input_writes, "overlay": ev.overlay})
    if pending:
        outcomes.append({"choices": {}, "status": "unsupported", "result": None, "args": {}, "detail": "too many undecided tests", "input_writes": [], "overlay": {}})
    return outcomes
