"""Particle index spaces: an abstract domain that tags every per-particle array with the particle list it is
indexed by.

The state arrays of one step are indexed by row number in the state ("full"). `X[m]` with a boolean mask or an
index array `m` over the full list lives in the compressed space `full[m]`; element-wise arithmetic, compiled
kernels that walk their arguments with one loop variable, masked stores and fancy indexing all pair elements
by position, so the arrays they combine must be tagged with the *same* space. Pairing `full` with `full[m]`
(compressed positions sampled with the full-length cached level indices, a depth array of all particles indexed
with positions inside the live subset) gives every particle after the first gap the data of another particle -
silently, because compiled kernels do no bounds or length checks.

Values: Sp(kind, space, text)
    kind  "P" per-particle values, "M" boolean mask over the space, "I" integer positions into the space,
          "N" the length of the space, "S" anything else (scalars, gridded fields, unknown)
    space "full" or "<space>[<selector text>]"
"""

from __future__ import annotations

import ast
from dataclasses import dataclass
from typing import Any, Optional

from .interp import Domain, Phi, Ref, Tup
from .program import short, unparse

ELEMENTWISE = {
    "np.where", "np.abs", "np.absolute", "np.fabs", "np.sqrt", "np.minimum", "np.maximum", "np.clip", "np.round", "np.around", "np.rint",
    "np.floor", "np.ceil", "np.trunc", "np.exp", "np.log", "np.sin", "np.cos", "np.tan", "np.hypot", "np.logical_and", "np.logical_or",
    "np.logical_not", "np.logical_xor", "np.isnan", "np.isfinite", "np.isinf", "np.add", "np.subtract", "np.multiply", "np.divide",
    "np.true_divide", "np.floor_divide", "np.negative", "np.asarray", "np.array", "np.copy", "np.sign", "np.mod", "np.remainder", "np.arctan2",
    "np.power", "np.square", "np.float64", "np.float32", "np.int64", "np.int32", "np.ascontiguousarray", "np.nan_to_num", "np.invert",
    "np.bitwise_and", "np.bitwise_or", "np.greater", "np.less", "np.greater_equal", "np.less_equal", "np.equal", "np.not_equal",
    ".astype", ".round", ".copy", ".clip", ".view", ".conj", ".__abs__", "abs", "float", "int", "np.degrees", "np.radians", "np.deg2rad", "np.rad2deg",
}
LIKE = {"np.zeros_like", "np.ones_like", "np.empty_like", "np.full_like"}
ALLOC = {"np.zeros", "np.ones", "np.empty", "np.full"}
REDUCE = {".sum", ".any", ".all", ".max", ".min", ".mean", ".std", ".item", "np.sum", "np.any", "np.all", "np.max", "np.min", "np.mean", "np.count_nonzero", "sum", "any", "all", "max", "min"}
SELECT = {"np.flatnonzero", "np.nonzero", "np.argwhere", ".nonzero"}


@dataclass(frozen=True)
class Sp:
    kind: str
    space: str = ""
    text: str = ""

    def canon(self) -> str:
        return f"{self.kind}<{self.space}>" if self.kind != "S" else "S"

    def __repr__(self) -> str:
        return self.canon()


S = Sp("S")
FULL = "full"


def P(space: str = FULL, text: str = "") -> Sp:
    return Sp("P", space, text)


def M(space: str = FULL, text: str = "") -> Sp:
    return Sp("M", space, text)


class SpaceDomain(Domain):
    def __init__(self) -> None:
        self.findings: list[tuple[str, Any, str]] = []  # (function, node, message)
        self.context = ""
        self.pairings = 0  # number of element-wise pairings checked (for the evidence)

    # -- helpers ---------------------------------------------------------
    def _sp(self, v) -> Sp:
        if isinstance(v, Sp):
            return v
        if isinstance(v, Phi):
            # may-analysis: a selector that is a mask on one path and `slice(None)` on the other is judged as
            # the mask (a pairing that is wrong on one path is wrong)
            a, b = self._sp(v.a), self._sp(v.b)
            return a if a.kind != "S" else b
        return S

    def bad(self, node, msg: str) -> None:
        key = (self.context, getattr(node, "lineno", 0), msg)
        if not any((f, getattr(n, "lineno", 0), m) == key for f, n, m in self.findings):
            self.findings.append((self.context, node, msg))

    def merge(self, vals: list, node, what: str) -> Sp:
        """Element-wise pairing of the values: all tagged operands must share one space."""
        tagged = [v for v in (self._sp(x) for x in vals) if v.kind in ("P", "M", "I")]
        if not tagged:
            return S
        self.pairings += 1
        spaces = sorted({t.space for t in tagged})
        if len(spaces) > 1:
            self.bad(node, f"{what} pairs per-particle arrays indexed by different particle lists ({' vs '.join(spaces)}): `{short(node, 90)}` - element n of one array belongs to another particle than element n of the other")
            # continue with the first space so that one defect gives one report
        kinds = {t.kind for t in tagged}
        kind = "M" if kinds == {"M"} else "P"
        return Sp(kind, tagged[0].space, "")

    # -- Domain interface --------------------------------------------------
    def const(self, c):
        return S

    def atom(self, name: str):
        return S

    def is_value(self, v) -> bool:
        return isinstance(v, Sp)

    def binop(self, op, a, b, node):
        return self.merge([a, b], node, "arithmetic")

    def unop(self, op, a, node):
        return self._sp(a)

    def compare(self, op, a, b, node):
        r = self.merge([a, b], node, "comparison")
        if r.kind in ("P", "M"):
            return Sp("M", r.space, unparse(node) if node is not None else "")
        return S

    def boolop(self, op, values, node):
        return self.merge(list(values), node, "boolean combination")

    def where(self, mask, new, old, node):
        """masked / indexed store  old[mask] = new"""
        o, m, n = self._sp(old), self._sp(mask), self._sp(new)
        if o.kind in ("P", "M", "I") and m.kind in ("M", "I"):
            self.pairings += 1
            if m.space != o.space:
                self.bad(node, f"store through a selector of another particle list: the array is indexed by {o.space}, the selector by {m.space}: `{short(node, 90)}`")
            elif n.kind in ("P", "M", "I") and n.space not in (o.space, f"{o.space}[{m.text}]"):
                self.bad(node, f"masked store pairs arrays of different particle lists: target {o.space}[{m.text}], value {n.space}: `{short(node, 90)}`")
            return o
        if o.kind in ("P", "M", "I"):
            return o
        return self.merge([new], node, "store") if n.kind != "S" else o

    def elem(self, base, base_text, idx, node, interp):
        b = self._sp(base) if not isinstance(base, Phi) else self._sp(interp._join(base.test, base.a, base.b))
        sel = [self._sp(i) for i in idx if not (isinstance(i, tuple) and i and i[0] == "slice")]
        tagged = [s for s in sel if s.kind in ("P", "M", "I")]
        if b.kind in ("P", "M", "I"):
            if not tagged:
                return S if not any(isinstance(i, tuple) for i in idx) else b  # one element / a slice of the list
            self.pairings += 1
            s0 = tagged[0]
            if s0.space != b.space:
                self.bad(node, f"`{short(node, 90)}`: an array indexed by {b.space} is subscripted with a selector that counts positions in {s0.space} - the positions refer to other particles")
                return Sp(b.kind, s0.space, "")
            if s0.kind == "P":
                return Sp(b.kind, b.space, "")  # gather with per-particle integer positions of the same list
            stext = s0.text or (unparse(node.slice) if isinstance(node, ast.Subscript) else "?")
            return Sp(b.kind, f"{b.space}[{stext}]", "")
        # a gridded array gathered at per-particle cell indices: one value per particle
        if tagged:
            return self.merge(tagged, node, "gather")
        return S

    def call(self, fname, args, kwargs, node, interp):
        tail = "." + fname.rsplit(".", 1)[-1] if fname.startswith(".") else fname
        a = [self._sp(x) for x in args]
        if fname == "len" and a and a[0].kind in ("P", "M", "I"):
            return Sp("N", a[0].space, "")
        if fname in LIKE and a:
            return Sp("P", a[0].space, "") if a[0].kind in ("P", "M", "I") else S
        if fname in ALLOC and a:
            n0 = a[0]
            if n0.kind == "N":
                return Sp("P", n0.space, "")
            return S
        if fname.endswith((".normal", ".uniform", ".standard_normal", ".random")):
            size = kwargs.get("size")
            cand = [self._sp(size)] if size is not None else []
            cand += [x for x in a if x.kind == "N"]
            for c in cand:
                if c.kind == "N":
                    return Sp("P", c.space, "")
            tagged = [x for x in a + [self._sp(v) for v in kwargs.values()] if x.kind in ("P", "M", "I")]
            if tagged:
                return self.merge(tagged, node, "random draw")
            return S
        if fname in SELECT or tail in SELECT:
            if a and a[0].kind in ("M", "P"):
                return Sp("I", a[0].space, f"nz({a[0].text})" if a[0].text else unparse(node))
            return S
        if fname in REDUCE or tail in REDUCE:
            if fname in ("max", "min", "np.maximum", "np.minimum") and len(a) > 1:
                return self.merge(a, node, fname)
            return S
        if fname == "np.where" and len(a) == 1:
            return Sp("I", a[0].space, f"nz({a[0].text})") if a[0].kind in ("M", "P") else S
        if fname in ELEMENTWISE or tail in ELEMENTWISE:
            vals = a + [self._sp(v) for k, v in kwargs.items() if k in ("out", "where")]
            return self.merge(vals, node, fname)
        if fname in ("np.full",) and a and a[0].kind == "N":
            return Sp("P", a[0].space, "")
        if fname.startswith("."):
            # an attribute or method this domain knows nothing about (.shape, .units, .scale_factor): no
            # per-particle information flows through it
            if fname == ".size" and a and a[0].kind in ("P", "M", "I"):
                return Sp("N", a[0].space, "")
            return S
        return NotImplemented

    def join(self, test, a, b, cond=None):
        a, b = self._sp(a), self._sp(b)
        if a == b:
            return a
        if a.kind == "S":
            return b
        if b.kind == "S":
            return a
        if a.space == b.space:
            return Sp("P" if "P" in (a.kind, b.kind) else a.kind, a.space, "")
        return Phi(test, a, b, cond)

    def loop_index(self, name, iter_node, interp):
        return S
