"""Effects on the model State: who writes which variable, who changes the length.

Shared by C05, C09, C14, C06, C08."""

from __future__ import annotations

import ast
from dataclasses import dataclass
from typing import Iterator, Optional

from .program import FuncInfo, Program, unparse, walk_no_nested, expand_locals, path_alias_defs

SKIP_MODULES = ("ROMS2",)  # not anchored by any property (advisory only)


@dataclass
class StateWrite:
    fi: FuncInfo
    node: ast.AST  # the Assign / AugAssign statement
    target: ast.expr
    key: Optional[str]  # variable name if literal, "<dynamic>" otherwise, "npid" for the counter
    kind: str  # "item" (state[k] = / state.variables[k] =), "masked" (state.k[m] = ), "attr" (npid)
    value: Optional[ast.expr]


def _is_state_expr(prog: Program, fi: FuncInfo, env: dict, e: ast.expr) -> bool:
    t = unparse(e)
    if env.get(t) == "state":
        return True
    if prog._expr_role(e, env) == "state":
        return True
    if t == "self" and fi.cls == prog.role_class.get("state") and fi.module.name == prog.role_module.get("state"):
        return True
    if isinstance(e, ast.Name) and e.id == "state":
        return True
    return False


def state_writes(prog: Program, modules: Optional[list[str]] = None) -> Iterator[StateWrite]:
    for fi in prog.all_functions():
        if fi.module.name in SKIP_MODULES or fi.module.name.startswith("ibms"):
            continue
        if modules and fi.module.name not in modules:
            continue
        env = prog.type_env(fi)
        pad = path_alias_defs(fi.node)  # alive = state.alive; variables = self.variables ...
        for node in walk_no_nested(fi.node):
            targets = []
            value = None
            if isinstance(node, ast.Assign):
                targets = list(node.targets)
                value = node.value
            elif isinstance(node, (ast.AugAssign, ast.AnnAssign)):
                targets = [node.target]
                value = node.value
            flat = []
            for t in targets:
                if isinstance(t, (ast.Tuple, ast.List)):
                    flat.extend(t.elts)
                else:
                    flat.append(t)
            if pad:
                flat = [expand_locals(t, fi.node, pad) if isinstance(t, (ast.Subscript, ast.Attribute)) else t for t in flat]
            for t in flat:
                # counter
                if isinstance(t, ast.Attribute) and t.attr == "npid":
                    yield StateWrite(fi, node, t, "npid", "attr", value)
                    continue
                if isinstance(t, ast.Subscript):
                    base = t.value
                    # state[k] = ...
                    if _is_state_expr(prog, fi, env, base):
                        if fi.cls == prog.role_class.get("state") and unparse(base) == "self":
                            continue  # `self[...]` inside State is not used; self.variables handled below
                        k = t.slice.value if isinstance(t.slice, ast.Constant) and isinstance(t.slice.value, str) else "<dynamic>"
                        yield StateWrite(fi, node, t, k, "item", value)
                        continue
                    # state.variables[k] = ...
                    if isinstance(base, ast.Attribute) and base.attr == "variables" and _is_state_expr(prog, fi, env, base.value):
                        k = t.slice.value if isinstance(t.slice, ast.Constant) and isinstance(t.slice.value, str) else "<dynamic>"
                        yield StateWrite(fi, node, t, k, "item", value)
                        continue
                    # state.alive[mask] = ...   /  state["alive"][mask] = ...
                    if isinstance(base, ast.Attribute) and _is_state_expr(prog, fi, env, base.value) and base.attr not in ("variables", "modules", "dtypes", "default_values"):
                        yield StateWrite(fi, node, t, base.attr, "masked", value)
                        continue
                    if isinstance(base, ast.Subscript) and isinstance(base.slice, ast.Constant) and (_is_state_expr(prog, fi, env, base.value) or (isinstance(base.value, ast.Attribute) and base.value.attr == "variables" and _is_state_expr(prog, fi, env, base.value.value))):
                        yield StateWrite(fi, node, t, str(base.slice.value), "masked", value)
                        continue


def local_state_aliases(prog: Program, fi: FuncInfo) -> dict[str, str]:
    """Local names bound to state arrays: `X, Y, Z = state.X, state.Y, state.Z` -> {X: X, ...}.
    In-place updates of such a name (`Z += ...`, `Z[m] = ...`) write the state array itself."""
    env = prog.type_env(fi)
    out: dict[str, str] = {}

    def var_of(e: ast.expr) -> Optional[str]:
        if isinstance(e, ast.Attribute) and _is_state_expr(prog, fi, env, e.value):
            return e.attr
        if isinstance(e, ast.Subscript) and isinstance(e.slice, ast.Constant) and _is_state_expr(prog, fi, env, e.value):
            return str(e.slice.value)
        return None

    for node in walk_no_nested(fi.node):
        if isinstance(node, ast.Assign) and len(node.targets) == 1:
            t, v = node.targets[0], node.value
            if isinstance(t, ast.Name):
                k = var_of(v)
                if k:
                    out[t.id] = k
            elif isinstance(t, ast.Tuple) and isinstance(v, ast.Tuple) and len(t.elts) == len(v.elts):
                for a, b in zip(t.elts, v.elts):
                    k = var_of(b)
                    if isinstance(a, ast.Name) and k:
                        out[a.id] = k
    return out


LEN_CHANGERS = {"append", "compactify"}


def len_change_calls(prog: Program, fi: FuncInfo) -> list[ast.Call]:
    """Calls in fi that change the number of particles directly: state.append / state.compactify / warm_start."""
    env = prog.type_env(fi)
    out = []
    for node in walk_no_nested(fi.node):
        if isinstance(node, ast.Call):
            f = node.func
            if isinstance(f, ast.Attribute) and f.attr in LEN_CHANGERS and _is_state_expr(prog, fi, env, f.value):
                out.append(node)
            elif isinstance(f, ast.Name) and f.id == "warm_start":
                out.append(node)
    return out


def changes_length(prog: Program, fi: FuncInfo, depth: int = 6, _seen=None) -> Optional[list[str]]:
    """A call chain from fi to a length-changing operation, or None."""
    _seen = _seen if _seen is not None else set()
    if fi.qual in _seen or depth < 0:
        return None
    _seen.add(fi.qual)
    direct = len_change_calls(prog, fi)
    if direct:
        return [fi.qual, unparse(direct[0].func)]
    env = prog.type_env(fi)
    for c in prog.calls_in(fi):
        for g in prog.resolve_call(fi, c, env):
            if g.name == "__init__":
                continue
            sub = changes_length(prog, g, depth - 1, _seen)
            if sub:
                return [fi.qual] + sub
    return None
