"""Static analysis of bjornaa/ladim2 against the given properties (see DESIGN.md).

Everything here works on the *source text* of $LADIM_REPO (default /repo):
nothing under the repository is imported or executed.
"""
