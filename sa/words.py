"""Event words: the sequence of resolved role-method calls along each path of a function.

Helpers of the same class / module are inlined (bounded depth), so moving a few
calls into a helper method does not change the word.
"""

from __future__ import annotations

import ast
from dataclasses import dataclass, field
from typing import Callable, Optional

from .paths import Path, enumerate_paths, calls_in_stmt, module_const_fold
from .program import FuncInfo, Program, unparse, short


@dataclass
class Ev:
    kind: str  # "call" | "cond" | "assign" | "exit"
    label: str  # e.g. "time.update", "warm_start", "step>=0:T"
    node: Optional[ast.AST] = None
    fi: Optional[FuncInfo] = None

    def __repr__(self) -> str:
        return self.label


@dataclass
class Word:
    events: list[Ev] = field(default_factory=list)
    exit: str = "fall"
    path: Optional[Path] = None

    def labels(self, kinds=("call",)) -> list[str]:
        return [e.label for e in self.events if e.kind in kinds]


def role_label(prog: Program, fi: FuncInfo, call: ast.Call, env) -> Optional[str]:
    """"<role>.<method>" if the call is a method call on a role-typed receiver."""
    f = call.func
    if isinstance(f, ast.Attribute):
        recv = unparse(f.value)
        role = env.get(recv) or prog._expr_role(f.value, env)
        if role:
            return f"{role}.{f.attr}"
    return None


def words(
    prog: Program,
    fi: FuncInfo,
    body: Optional[list[ast.stmt]] = None,
    depth: int = 3,
    unroll: tuple[int, ...] = (0, 1),
    classify: Optional[Callable[[FuncInfo, ast.Call, dict], Optional[str]]] = None,
    keep_conds: bool = True,
    keep_assigns: bool = False,
    max_words: int = 4000,
) -> list[Word]:
    """Enumerate event words of ``fi`` (or of ``body`` inside ``fi``)."""
    env = prog.type_env(fi)
    fold = module_const_fold(fi.module)
    stmts = body if body is not None else fi.node.body
    out: list[Word] = []

    def expand_call(call: ast.Call, d: int) -> list[list[Ev]]:
        lab = None
        if classify is not None:
            lab = classify(fi, call, env)
        if lab is None:
            lab = role_label(prog, fi, call, env)
        if lab is not None:
            return [[Ev("call", lab, call, fi)]]
        # helper in the same module -> inline
        targets = prog.resolve_call(fi, call, env)
        if len(targets) == 1 and d > 0 and targets[0].module is fi.module and targets[0].name != "__init__":
            g = targets[0]
            sub = words(prog, g, None, d - 1, unroll, classify, keep_conds, keep_assigns, max_words)
            res = []
            for w in sub:
                # a helper that raises ends the caller's path too; keep as marker
                evs = list(w.events)
                if w.exit == "raise":
                    evs.append(Ev("exit", "raise", call, g))
                res.append(evs)
            return res or [[]]
        return [[]]

    for p in enumerate_paths(stmts, unroll=unroll, const_fold=fold):
        partial: list[list[Ev]] = [[]]
        dead = [False]
        for s in p.steps:
            pieces: list[list[list[Ev]]] = []
            if s[0] == "stmt":
                for c in calls_in_stmt(s[1]):
                    pieces.append(expand_call(c, depth))
                if keep_assigns and isinstance(s[1], (ast.Assign, ast.AugAssign, ast.AnnAssign)):
                    pieces.append([[Ev("assign", short(s[1]), s[1], fi)]])
            elif s[0] == "cond":
                for c in calls_in_stmt(s[1]):
                    pieces.append(expand_call(c, depth))
                if keep_conds:
                    pieces.append([[Ev("cond", f"{unparse(s[1])}:{'T' if s[2] else 'F'}", s[1], fi)]])
            elif s[0] == "with":
                for c in calls_in_stmt(s[1]):
                    pieces.append(expand_call(c, depth))
            elif s[0] == "iter":
                if s[2] == 0 and isinstance(s[1], ast.For):
                    for c in calls_in_stmt(s[1].iter):
                        pieces.append(expand_call(c, depth))
                pieces.append([[Ev("iter", f"iter{s[2]}", s[1], fi)]])
            elif s[0] == "except":
                pieces.append([[Ev("except", "except " + (unparse(s[1].type) if s[1].type else "*"), s[1], fi)]])
            for alts in pieces:
                nxt = []
                for base in partial:
                    if base and base[-1].kind == "exit":
                        nxt.append(base)
                        continue
                    for alt in alts:
                        nxt.append(base + alt)
                partial = nxt
                if len(partial) > max_words:
                    partial = partial[:max_words]
        for evs in partial:
            ex = p.exit
            if evs and evs[-1].kind == "exit":
                ex = "raise"
            out.append(Word(evs, ex, p))
            if len(out) > max_words:
                return out
    return out


def cmp_norm(test: ast.expr) -> Optional[tuple[str, str, str]]:
    """Normalise a two-operand comparison to (lhs, op, rhs) with a canonical
    orientation: constants to the right; `not a < b` -> a >= b."""
    neg = False
    while isinstance(test, ast.UnaryOp) and isinstance(test.op, ast.Not):
        neg = not neg
        test = test.operand
    if not (isinstance(test, ast.Compare) and len(test.ops) == 1):
        return None
    ops = {ast.Lt: "<", ast.LtE: "<=", ast.Gt: ">", ast.GtE: ">=", ast.Eq: "==", ast.NotEq: "!="}
    op = ops.get(type(test.ops[0]))
    if op is None:
        return None
    l, r = test.left, test.comparators[0]
    flip = {"<": ">", "<=": ">=", ">": "<", ">=": "<=", "==": "==", "!=": "!="}
    negate = {"<": ">=", "<=": ">", ">": "<=", ">=": "<", "==": "!=", "!=": "=="}
    if isinstance(l, ast.Constant) or (isinstance(l, ast.UnaryOp) and isinstance(l.operand, ast.Constant)):
        l, r, op = r, l, flip[op]
    if neg:
        op = negate[op]
    return unparse(l), op, unparse(r)


def int_threshold(test: ast.expr) -> Optional[tuple[str, int]]:
    """For an integer-valued lhs: `x >= c`, `x > c-1`, `not x < c` ... -> (x, c)
    meaning the test is true iff x >= c.  None if not of that shape."""
    n = cmp_norm(test)
    if n is None:
        return None
    l, op, r = n
    try:
        c = int(ast.literal_eval(r))
    except Exception:
        return None
    if op == ">=":
        return l, c
    if op == ">":
        return l, c + 1
    return None
