"""The rational-normal-form value domain for the abstract interpreter (E4)."""

from __future__ import annotations

import ast
from fractions import Fraction
from typing import Any, Optional

from .interp import Domain, Interp, Phi, Ref, Tup, Unsupported, vtext
from .nf import NF, func_atom
from .program import short, unparse

ELEMENTARY = {"sinh", "cosh", "tanh", "exp", "sin", "cos", "tan", "log", "arcsin", "arctan"}
IDENTITY_CALLS = {
    "np.asarray", "np.array", "sorted", "list", "tuple", "np.sort", "np.ascontiguousarray", "float", "np.float32", "np.float64", "np.squeeze",
    ".copy", ".ravel", ".reshape", ".flatten", ".squeeze", ".astype:float", ".item", "np.atleast_1d",
}


class NFDomain(Domain):
    def __init__(self, scalars: Optional[set[str]] = None) -> None:
        self.scalars = set(scalars or ())  # atoms that are not arrays (never subscripted)
        self.elem_info: dict[str, tuple[str, list[NF]]] = {}  # element atom -> (array atom, index NFs)
        self.bool_info: dict[str, tuple] = {}  # boolean atom -> ("not", v) | ("and"/"or", a, b) | ("cmp", op, a, b) | ("pred", name, args)
        self.fresh = 0

    # -- basics ----------------------------------------------------------
    def const(self, c):
        return NF.const(c)

    def atom(self, name: str):
        return NF.atom(name)

    def is_value(self, v) -> bool:
        return isinstance(v, NF)

    def binop(self, op, a, b, node):
        try:
            if isinstance(op, ast.Add):
                return a + b
            if isinstance(op, ast.Sub):
                return a - b
            if isinstance(op, ast.Mult):
                return a * b
            if isinstance(op, ast.Div):
                return a / b
            if isinstance(op, ast.Pow):
                return a ** b
            if isinstance(op, ast.FloorDiv):
                return NF.atom(f"floor({(a / b).canon()})")
            if isinstance(op, ast.Mod):
                return NF.atom(f"mod({a.canon()};{b.canon()})")
            if isinstance(op, (ast.BitAnd, ast.BitOr, ast.BitXor)):
                sym = {ast.BitAnd: "and", ast.BitOr: "or", ast.BitXor: "xor"}[type(op)]
                x, y = sorted([a.canon(), b.canon()])
                name = f"{sym}({x};{y})"
                self.bool_info[name] = (sym, a, b)
                return NF.atom(name)
        except (ValueError, ZeroDivisionError) as e:
            raise Unsupported(f"line {getattr(node, 'lineno', '?')}: {e} in {short(node)}") from e
        raise Unsupported(f"line {getattr(node, 'lineno', '?')}: operator {type(op).__name__} in {short(node)}")

    def unop(self, op, a, node):
        if isinstance(op, ast.USub):
            return -a
        if isinstance(op, ast.UAdd):
            return a
        if isinstance(op, (ast.Invert, ast.Not)):
            name = f"not({a.canon()})"
            self.bool_info[name] = ("not", a)
            return NF.atom(name)
        raise Unsupported(f"unary operator {type(op).__name__}")

    def compare(self, op, a, b, node):
        d = a - b
        if d.is_const():
            v = d.const_value()
            return {
                ast.Lt: v < 0, ast.LtE: v <= 0, ast.Gt: v > 0, ast.GtE: v >= 0, ast.Eq: v == 0, ast.NotEq: v != 0,
            }.get(type(op))
        sym = {ast.Lt: "lt", ast.LtE: "le", ast.Gt: "gt", ast.GtE: "ge", ast.Eq: "eq", ast.NotEq: "ne"}.get(type(op))
        if sym is None:
            return None
        name = f"{sym}({a.canon()};{b.canon()})"
        self.bool_info[name] = ("cmp", sym, a, b)
        return NF.atom(name)

    def boolop(self, op, values, node):
        parts = []
        for v in values:
            if isinstance(v, NF):
                parts.append(v.canon())
            elif isinstance(v, Ref):
                parts.append(v.path)
            else:
                return None
        return NF.atom(("and" if isinstance(op, ast.And) else "or") + "(" + ";".join(parts) + ")")

    def where(self, mask, new, old, node):
        m = vtext(mask)
        if isinstance(new, NF) and isinstance(old, NF) and new == old:
            return new
        return Phi("mask:" + m, new, old, cond=mask)

    # -- arrays ----------------------------------------------------------
    def elem(self, base, base_text, idx, node, interp):
        """F[k-1, j, i] -> apply the subscript to every array atom of the normal form."""
        if isinstance(base, Phi):
            return interp._join(base.test, self.elem(base.a, base_text, idx, node, interp), self.elem(base.b, base_text, idx, node, interp))
        if isinstance(base, Ref):
            base = NF.atom(base.path)
        if not isinstance(base, NF):
            raise Unsupported(f"subscript of {base!r}: {short(node)}")
        idx_nf: list[Any] = []
        for v in idx:
            if isinstance(v, tuple) and v and v[0] == "slice":
                idx_nf.append(v)
            elif isinstance(v, Ref):
                idx_nf.append(NF.atom(v.path))
            elif isinstance(v, NF):
                idx_nf.append(v)
            else:
                idx_nf.append(NF.atom(str(v)))
        def itext(v):
            if isinstance(v, tuple):
                lo = v[1].canon() if isinstance(v[1], NF) else ("" if v[1] is None else str(v[1]))
                hi = v[2].canon() if isinstance(v[2], NF) else ("" if v[2] is None else str(v[2]))
                return f"{lo}:{hi}"
            return v.canon()
        suffix = "[" + ";".join(itext(v) for v in idx_nf) + "]"
        mapping = {}
        for a in base.atoms():
            if a in self.scalars or a.startswith("const("):
                continue
            name = a + suffix
            mapping[a] = NF.atom(name)
            self.elem_info[name] = (a, [v for v in idx_nf])
        return base.subst(mapping)

    # -- calls -----------------------------------------------------------
    def call(self, fname, args, kwargs, node, interp):
        def n(v):
            return interp.num(v)
        base = fname.split(".")[-1]
        if fname in ("np.zeros_like", "np.zeros"):
            return NF.const(0)
        if fname in ("np.ones_like", "np.ones"):
            return NF.const(1)
        if fname in ("np.empty", "np.empty_like"):
            return Ref("empty")
        if fname in IDENTITY_CALLS and args:
            return args[0]
        if fname == ".astype" and len(args) == 2:
            t = args[1]
            tt = t if isinstance(t, str) else (t.path if isinstance(t, Ref) else "")
            tl = tt.lower().replace("np.", "").replace("numpy.", "")
            if tl in ("i", "i2", "i4", "i8", "l", "q") or tl.startswith(("int", "uint", "long")) or tl == "intc" or tl == "intp":
                return self._int(n(args[0]))
            if tl in ("f", "d", "f4", "f8") or tl.startswith(("float", "double", "single")):
                return args[0]
            return NF.atom(f"astype({n(args[0]).canon()};{tt})")
        if fname == "int" and args:
            return self._int(n(args[0]))
        if fname in ("np.around", "np.round", "np.rint", ".round", "round") and args:
            return NF.atom(f"round({n(args[0]).canon()})")
        if fname in ("np.floor",) and args:
            return NF.atom(f"floor({n(args[0]).canon()})")
        if fname in ("np.trunc", "np.fix") and args:
            return self._int(n(args[0]))
        if fname in ("len",) and args:
            v = args[0]
            if isinstance(v, Tup):
                return NF.const(len(v.items))
            return NF.atom(f"len({n(v).canon()})")
        if fname in (".size",) and args:
            return NF.atom(f"len({n(args[0]).canon()})")
        if fname in ("np.sqrt", "math.sqrt") and args:
            try:
                return n(args[0]) ** Fraction(1, 2)
            except ValueError:
                return NF.atom(f"sqrt({n(args[0]).canon()})")
        if fname in ("abs", "np.abs", "np.absolute") and args:
            return func_atom("abs", n(args[0]))
        if fname.startswith(("np.", "math.")) and base in ELEMENTARY and args:
            return func_atom(base, n(args[0]))
        if fname in ("max", "min", "np.maximum", "np.minimum") and len(args) == 2:
            a, b = n(args[0]), n(args[1])
            if a == b:
                return a
            x, y = sorted([a.canon(), b.canon()])
            return NF.atom(f"{base[:3]}({x};{y})")
        if fname == "np.outer" and len(args) == 2:
            return n(args[0]) * n(args[1])
        if fname == "np.arange" and len(args) == 1:
            return NF.atom("#n")  # generic index 0 <= #n < N
        if fname == "np.linspace" and len(args) >= 3:
            a, b, m = n(args[0]), n(args[1]), n(args[2])
            return a + (b - a) * NF.atom("#n") / (m - 1)
        if fname == "np.diff" and len(args) == 1:
            return NF.atom(f"diff({n(args[0]).canon()})")
        if fname == "np.add" and len(args) == 2:
            return n(args[0]) + n(args[1])
        if fname == "np.subtract" and len(args) == 2:
            return n(args[0]) - n(args[1])
        if fname == "np.multiply" and len(args) >= 2:
            return n(args[0]) * n(args[1])
        if fname in ("np.divide", "np.true_divide") and len(args) == 2:
            return n(args[0]) / n(args[1])
        if fname == "np.negative" and len(args) == 1:
            return -n(args[0])
        if fname == "np.square" and len(args) == 1:
            return n(args[0]) * n(args[0])
        if fname == "np.where" and len(args) == 3:
            c = args[0]
            if isinstance(c, bool):
                return args[1] if c else args[2]
            ctext = c.canon() if isinstance(c, NF) else (c.path if isinstance(c, Ref) else str(c))
            return interp._join("where:" + ctext, args[1] if not isinstance(args[1], Ref) else n(args[1]), args[2] if not isinstance(args[2], Ref) else n(args[2]))
        if fname in ("np.timedelta64", "np.datetime64") and args:
            # np.timedelta64(v, "s") is v in that unit: keep the unit as a factor atom
            if len(args) == 2 and isinstance(args[1], str):
                return n(args[0]) * NF.atom(f"unit:{args[1]}")
            if len(args) == 2 and isinstance(args[1], Ref):
                return n(args[0]) * NF.atom(f"unit:{args[1].path}")
            return n(args[0])
        if fname in ("str", "bool"):
            return Ref(f"{fname}:" + (n(args[0]).canon() if args else ""))
        if fname == ".shape":
            return Ref("shape:" + n(args[0]).canon())
        if fname == ".sum" or fname == "np.sum" or fname == "sum":
            return NF.atom(f"sum({n(args[0]).canon()})")
        if fname in (".max", ".min", "np.max", "np.min"):
            return NF.atom(f"{base}({n(args[0]).canon()})")
        return NotImplemented

    @staticmethod
    def _int(v: NF) -> NF:
        if v.is_const():
            c = v.const_value()
            return NF.const(int(c))
        return NF.atom(f"int({v.canon()})")

    def fresh_atom(self, prefix: str) -> NF:
        self.fresh += 1
        return NF.atom(f"{prefix}#{self.fresh}")
