"""In-place writes through a function's array parameters (ownership / effect rule).

A function that receives one of the grid's arrays (bathymetry, level depths, lon/lat, a field) must
not modify it: numpy hands out *views* for asarray / ravel / reshape / basic slices, so an augmented
assignment or an element store on such a name writes into the caller's storage.

`param_writes(fn)` returns every statement that writes in place through a parameter or through a
local name that may be a view of one. Flow-insensitive on purpose (a name that is a view anywhere in
the function counts as a view everywhere) except that a name rebound to a fresh array *before* the
write and never bound to a view is not an alias.
"""

from __future__ import annotations

import ast

from .program import unparse, walk_no_nested

# calls / methods whose result may share memory with the argument
VIEW_FUNCS = {"np.asarray", "np.asanyarray", "np.ravel", "np.reshape", "np.atleast_1d", "np.atleast_2d", "np.atleast_3d", "np.squeeze", "np.transpose", "np.swapaxes", "np.broadcast_to", "np.ascontiguousarray", "np.expand_dims", "np.moveaxis", "np.flipud", "np.fliplr", "np.flip", "np.real", "np.imag"}
VIEW_METHODS = {"ravel", "reshape", "view", "squeeze", "transpose", "swapaxes", "T", "flat", "real", "imag", "diagonal"}
INPLACE_METHODS = {"sort", "fill", "resize", "put", "itemset", "partition", "setfield", "byteswap"}
INPLACE_FUNCS_FIRST_ARG = {"np.copyto", "np.put", "np.place", "np.putmask", "np.fill_diagonal", "np.random.shuffle", "np.put_along_axis"}


def _may_view(e: ast.expr, aliases: set) -> bool:
    """Does expression `e` possibly share memory with one of `aliases`?"""
    if isinstance(e, ast.Name):
        return e.id in aliases
    if isinstance(e, ast.Subscript):
        # basic slicing gives a view; integer-array / boolean indexing copies. Without types: a slice
        # anywhere in the index, a constant, or a bare name index on a >= 1-D array may be a view
        def basic(ix):
            if isinstance(ix, ast.Slice):
                return True
            if isinstance(ix, ast.Constant) and (ix.value is Ellipsis or ix.value is None or isinstance(ix.value, int)):
                return True
            if isinstance(ix, ast.Tuple):
                return all(basic(x) or isinstance(x, (ast.Name, ast.Subscript, ast.BinOp)) for x in ix.elts) and any(isinstance(x, ast.Slice) or (isinstance(x, ast.Constant) and x.value in (None, Ellipsis)) for x in ix.elts)
            return False

        return basic(e.slice) and _may_view(e.value, aliases)
    if isinstance(e, ast.Attribute):
        return e.attr in VIEW_METHODS and _may_view(e.value, aliases)
    if isinstance(e, ast.Call):
        fn = unparse(e.func)
        if fn in VIEW_FUNCS and e.args:
            return _may_view(e.args[0], aliases)
        if isinstance(e.func, ast.Attribute) and e.func.attr in VIEW_METHODS:
            return _may_view(e.func.value, aliases)
        return False
    if isinstance(e, ast.IfExp):
        return _may_view(e.body, aliases) or _may_view(e.orelse, aliases)
    if isinstance(e, (ast.Tuple, ast.List)):
        return False
    return False


def view_aliases(fn: ast.FunctionDef, params: list[str]) -> set:
    aliases = set(params)
    changed = True
    while changed:
        changed = False
        for st in walk_no_nested(fn):
            tgt = val = None
            if isinstance(st, ast.Assign) and len(st.targets) == 1:
                tgt, val = st.targets[0], st.value
            elif isinstance(st, ast.AnnAssign) and st.value is not None:
                tgt, val = st.target, st.value
            if tgt is None:
                continue
            pairs = []
            if isinstance(tgt, ast.Name):
                pairs = [(tgt, val)]
            elif isinstance(tgt, (ast.Tuple, ast.List)) and isinstance(val, (ast.Tuple, ast.List)) and len(tgt.elts) == len(val.elts):
                pairs = [(t, v) for t, v in zip(tgt.elts, val.elts) if isinstance(t, ast.Name)]
            for t, v in pairs:
                if t.id not in aliases and _may_view(v, aliases):
                    aliases.add(t.id)
                    changed = True
    return aliases


def _base_name(t: ast.expr):
    while isinstance(t, (ast.Subscript, ast.Attribute)):
        if isinstance(t, ast.Attribute) and t.attr not in VIEW_METHODS:
            return None
        t = t.value
    return t.id if isinstance(t, ast.Name) else None


def param_writes(fn: ast.FunctionDef, params: list[str]) -> list[tuple[ast.AST, str, str]]:
    """[(statement, name written through, how)] for every in-place write through `params`."""
    aliases = view_aliases(fn, params)
    # a parameter rebound to a fresh value before any write is still treated as an alias: the rule is
    # conservative only for names that are *only* ever bound to fresh arrays, which are not in `aliases`
    fresh_only = set()
    for p in params:
        binds = [st for st in walk_no_nested(fn) if isinstance(st, (ast.Assign, ast.AnnAssign)) and any(isinstance(t, ast.Name) and t.id == p for t in (st.targets if isinstance(st, ast.Assign) else [st.target]))]
        if binds and all(not _may_view(b.value, aliases) for b in binds if b.value is not None):
            # rebound to a copy (np.array(p), p.copy(), p * 1.0 ...): later writes to the name touch the copy,
            # provided the rebinding comes first in the function body
            first_write = min((st.lineno for st in walk_no_nested(fn) if isinstance(st, (ast.AugAssign,)) and _base_name(st.target) == p), default=10**9)
            if min(b.lineno for b in binds) < first_write:
                fresh_only.add(p)
    out = []
    for st in walk_no_nested(fn):
        if isinstance(st, ast.AugAssign):
            b = _base_name(st.target)
            if b in aliases and b not in fresh_only:
                out.append((st, b, "augmented assignment"))
        elif isinstance(st, ast.Assign):
            for t in st.targets:
                for el in t.elts if isinstance(t, (ast.Tuple, ast.List)) else [t]:
                    if isinstance(el, ast.Subscript):
                        b = _base_name(el)
                        if b in aliases and b not in fresh_only:
                            out.append((st, b, "element store"))
        if isinstance(st, ast.Call):
            fnname = unparse(st.func)
            for kw in st.keywords:
                if kw.arg == "out":
                    for x in kw.value.elts if isinstance(kw.value, ast.Tuple) else [kw.value]:
                        b = _base_name(x)
                        if b in aliases and b not in fresh_only:
                            out.append((st, b, "out= argument"))
            if isinstance(st.func, ast.Attribute) and st.func.attr in INPLACE_METHODS:
                b = _base_name(st.func.value)
                if b in aliases and b not in fresh_only:
                    out.append((st, b, f".{st.func.attr}() in place"))
            if fnname in INPLACE_FUNCS_FIRST_ARG and st.args:
                b = _base_name(st.args[0])
                if b in aliases and b not in fresh_only:
                    out.append((st, b, f"{fnname} in place"))
    return out
