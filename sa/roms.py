"""Facts about ladim/ROMS.py extracted from its source (shared by C02, C03, C12, C16, C17):
grid limits and slices, array layouts of the reads, sampling call chains."""

from __future__ import annotations

import ast
from dataclasses import dataclass, field
from typing import Any, Optional

from .interp import Frame, Interp, Phi, Ref, Tup, Unsupported, vtext
from .nf import NF
from .nfdomain import NFDomain
from .program import AnalysisError, FuncInfo, Program, short, unparse, walk_no_nested

BASE = ("i0", "i1", "j0", "j1")


def grid_attrs(prog: Program) -> dict[str, Any]:
    """Abstract values of the attributes Grid.__init__ assigns from the subgrid limits:
    slices as Tup([start, stop]) and scalars as NF, over the atoms grid.i0/i1/j0/j1."""
    fi = prog.role_func("grid", "__init__")
    dom = NFDomain()

    def hook(node, fr, it):
        fn = unparse(node.func)
        if fn == "slice":
            args = [it.eval(a, fr) for a in node.args]
            if len(args) == 1:
                return Tup([NF.const(0), it.num(args[0])])
            return Tup([it.num(args[0]) if args[0] is not None else NF.const(0), it.num(args[1]) if args[1] is not None else None])
        if fn == "float":
            return it.eval(node.args[0], fr)
        return NotImplemented

    it = Interp(prog, dom, depth=0, call_hook=hook)
    fr = Frame(fi, {}, "grid")
    for b in BASE:
        it.objenv[f"grid.{b}"] = NF.atom(f"grid.{b}")
    out: dict[str, Any] = {}
    seen_limits = False
    for st in walk_no_nested(fi.node):
        if not isinstance(st, ast.Assign) or len(st.targets) != 1:
            continue
        t = st.targets[0]
        if isinstance(t, ast.Tuple) and [unparse(e) for e in t.elts] == [f"self.{b}" for b in BASE]:
            seen_limits = True
            out["_limits_expr"] = unparse(st.value)
            continue
        if isinstance(t, ast.Name) and seen_limits and not any(isinstance(n, ast.Call) and unparse(n.func) not in ("slice", "float", "int") for n in ast.walk(st.value)):
            # a local temporary between the limits and an attribute (tmp = self.i1 - 1; self.xmax = float(tmp))
            try:
                fr.env[t.id] = it.eval(st.value, fr)
            except Unsupported:
                pass
            continue
        if isinstance(t, ast.Attribute) and unparse(t.value) == "self" and seen_limits:
            names = {n.attr for n in ast.walk(st.value) if isinstance(n, ast.Attribute) and unparse(n.value) == "self"}
            known = set(BASE) | set(out)
            local_ok = all(n.id in fr.env for n in ast.walk(st.value) if isinstance(n, ast.Name) and n.id not in ("self", "slice", "float", "int", "np"))
            if (names or any(isinstance(n, ast.Name) and n.id in fr.env for n in ast.walk(st.value))) and names <= known and local_ok and not any(isinstance(n, ast.Call) and unparse(n.func) not in ("slice", "float", "int") for n in ast.walk(st.value)):
                try:
                    v = it.eval(st.value, fr)
                except Unsupported:
                    continue
                it.objenv[f"grid.{t.attr}"] = v
                out[t.attr] = v
    if not seen_limits:
        raise AnalysisError("Grid.__init__: `self.i0, self.i1, self.j0, self.j1 = limits` not found")
    return out


@dataclass
class ReadLayout:
    field: str  # "u", "v", or "<scalar>"
    func: str
    node: ast.Subscript
    axes: list[str]  # text of each index, e.g. ["frame", ":", "self.grid.Ju", "self.grid.Iu"]
    yslice: Optional[str] = None  # Grid attribute name
    xslice: Optional[str] = None


def read_layouts(prog: Program) -> list[ReadLayout]:
    """`self._nc.variables[<name>][frame, :, <J>, <I>]` reads in the forcing class."""
    out = []
    for meth in ("_read_velocity", "_read_field"):
        fi = prog.role_func("forcing", meth)
        for node in walk_no_nested(fi.node):
            if not (isinstance(node, ast.Subscript) and isinstance(node.value, ast.Subscript)):
                continue
            inner = node.value
            if not unparse(inner.value).endswith(".variables"):
                continue
            key = inner.slice
            name = key.value if isinstance(key, ast.Constant) else "<scalar>"
            idx = list(node.slice.elts) if isinstance(node.slice, ast.Tuple) else [node.slice]
            axes = [unparse(e) for e in idx]
            rl = ReadLayout(name, fi.qual, node, axes)
            if len(idx) == 4:
                def gattr(e):
                    s = unparse(e)
                    for pre in ("self.grid.", "grid."):
                        if s.startswith(pre):
                            return s[len(pre):]
                    return None
                rl.yslice, rl.xslice = gattr(idx[2]), gattr(idx[3])
            out.append(rl)
    return out


@dataclass
class Sample:
    kind: str  # "trilinear" | "nearest"
    field_nf: Any  # NF of the array argument
    x: NF
    y: NF
    k: Any
    a: Any
    chain: str
    node: ast.AST
    result_atom: Optional[str] = None


def forcing_interp(prog: Program, samples: list, inline_trilinear: bool = False):
    """Interp prepared for Forcing methods: grid offsets as atoms, trilinear calls captured."""
    dom = NFDomain(scalars={"fractional_step", "grid.i0", "grid.j0"})

    def hook(node, fr, it):
        fn = unparse(node.func)
        if fn == "trilinear" and not inline_trilinear:
            tf = it.prog.func("ROMS.trilinear")
            from .program import bind_args

            b = bind_args(tf, node)
            p = tf.params
            vals = [it.eval(b[q], fr) for q in p]
            r = dom.fresh_atom("tri")
            samples.append(Sample("trilinear", vals[0], it.num(vals[1]), it.num(vals[2]), vals[3], vals[4], it.chain() + f" -> {fr.fi.qual}", node, r.canon()))
            return r
        return NotImplemented

    it = Interp(prog, dom, depth=5, call_hook=hook)
    it.objenv["grid.i0"] = NF.atom("grid.i0")
    it.objenv["grid.j0"] = NF.atom("grid.j0")
    return it, dom


def velocity_samples(prog: Program, reversal: Optional[bool] = None, frac: Any = None):
    """Run Forcing.velocity abstractly; -> (result, samples, interp, dom)."""
    fi = prog.role_func("forcing", "velocity")
    samples: list[Sample] = []
    it, dom = forcing_interp(prog, samples)
    if reversal is not None:
        it.objenv["forcing.time_reversal"] = reversal
    args = dict(X=NF.atom("X"), Y=NF.atom("Y"), Z=NF.atom("Z"))
    if frac is not None:
        args["fractional_step"] = frac
    res, fr = it.run(fi, args, "forcing")
    return res, samples, it, dom


def effective_fields(res, samples, it) -> list:
    """Per component of velocity()'s result: the field effectively sampled.

    The interpolation kernels are linear in the field values (weights times F, R02.2), so
    c * sample(F) is sample(c * F): a constant factor applied to the sampled particle values counts
    as applied to the field.  -> [NF | None] (None: component is not c * one sample)."""
    by_atom = {s.result_atom: s for s in samples}
    items = res.items if isinstance(res, Tup) else [res]
    out = []
    for v in items:
        v = it.num(v)
        eff = None
        if isinstance(v, NF):
            ats = [a for a in v.atoms() if a in by_atom]
            if len(ats) == 1 and v.atoms() == {ats[0]}:
                c = v.coeff(ats[0])
                f = by_atom[ats[0]].field_nf
                if isinstance(f, Ref):
                    f = NF.atom(f.path)
                if isinstance(c, NF) and not c.atoms() and isinstance(f, NF) and v == c * NF.atom(ats[0]):
                    eff = c * f
        out.append(eff)
    return out


def force_particles_run(prog: Program, reversal: Optional[bool] = None):
    fi = prog.role_func("forcing", "force_particles")
    samples: list[Sample] = []
    it, dom = forcing_interp(prog, samples)
    if reversal is not None:
        it.objenv["forcing.time_reversal"] = reversal
    res, fr = it.run(fi, dict(X=NF.atom("X"), Y=NF.atom("Y")), "forcing")
    return fr, samples, it, dom


def flatten_phi(v, conds=()) -> list[tuple[tuple, Any]]:
    """Phi tree -> [(conditions, leaf)], each condition (test_text, taken)."""
    if isinstance(v, Phi):
        return flatten_phi(v.a, conds + ((v.test, True),)) + flatten_phi(v.b, conds + ((v.test, False),))
    return [(conds, v)]


def atoms_of(v, it=None) -> set:
    """Atoms of every leaf of an abstract value (Phi / Tup aware)."""
    out = set()
    if isinstance(v, Phi):
        return atoms_of(v.a, it) | atoms_of(v.b, it)
    if isinstance(v, Tup):
        for x in v.items:
            out |= atoms_of(x, it)
        return out
    if isinstance(v, Ref):
        return {v.path}
    if isinstance(v, NF):
        return v.atoms()
    return out


def limits_objenv(prog: Program) -> dict:
    """Object environment for evaluating Grid.ingrid: the four limits as atoms xmin/xmax/ymin/ymax and every
    other attribute that Grid.__init__ derives from the subgrid limits (a precomputed tuple of interior
    bounds, say) rewritten over those atoms. The rewriting inverts the definitions of the limits themselves
    (xmin = i0 + c  =>  i0 = xmin - c), so it needs each limit to be a base limit plus a constant."""
    env = {f"grid.{k}": NF.atom(k) for k in ("xmin", "xmax", "ymin", "ymax")}
    try:
        ga = grid_attrs(prog)
    except AnalysisError:
        return env
    inv = {}
    for k in ("xmin", "xmax", "ymin", "ymax"):
        v = ga.get(k)
        if not isinstance(v, NF):
            return env
        bases = [a for a in v.atoms()]
        if len(bases) != 1:
            return env
        b = bases[0]
        c = v - NF.atom(b)
        if not c.is_const() or b in inv:
            return env
        inv[b] = NF.atom(k) - c
    for name, v in ga.items():
        key = f"grid.{name}"
        if key in env or name.startswith("_limits"):
            continue
        try:
            if isinstance(v, NF) and v.atoms() <= set(inv):
                env[key] = v.subst(inv)
            elif isinstance(v, Tup) and all(isinstance(x, NF) and x.atoms() <= set(inv) for x in v.items):
                env[key] = Tup([x.subst(inv) for x in v.items])
        except Exception:  # noqa: BLE001
            continue
    return env


def valid_region(prog: Program) -> dict:
    """Bounds of Grid.ingrid as normal forms over xmin/xmax/ymin/ymax:
    {("X","lower"): (NF, strict), ("X","upper"): ..., ("Y","lower"): ..., ("Y","upper"): ...}."""
    fi = prog.role_func("grid", "ingrid")
    dom = NFDomain()
    it = Interp(prog, dom, depth=0)
    it.objenv.update(limits_objenv(prog))
    res, fr = it.run(fi, dict(X=NF.atom("X"), Y=NF.atom("Y")), "grid")
    cmps = []

    def collect(v):
        if isinstance(v, NF) and len(v.atoms()) == 1:
            info = dom.bool_info.get(v.canon())
            if info is None:
                return False
            if info[0] == "and":
                return collect(info[1]) and collect(info[2])
            if info[0] == "cmp":
                cmps.append(info)
                return True
        return False

    if not (isinstance(res, NF) and collect(res)):
        raise AnalysisError("Grid.ingrid is not a conjunction of comparisons")
    bounds = {}
    for _, op, a, b in cmps:
        lo, hi = (a, b) if op in ("lt", "le") else (b, a)
        strict = op in ("lt", "gt")
        for var in ("X", "Y"):
            if hi == NF.atom(var):
                bounds[(var, "lower")] = (lo, strict)
            if lo == NF.atom(var):
                bounds[(var, "upper")] = (hi, strict)
    if len(bounds) != 4:
        raise AnalysisError(f"Grid.ingrid: expected four bounds, found {sorted(bounds)}")
    return bounds


from .program import expand_locals  # noqa: E402


def grid_2d_arrays(prog: Program) -> dict[str, tuple[str, str]]:
    """Grid attributes read as 2-D blocks `ncid.variables[...][self.<J>, self.<I>]` -> (yslice, xslice)."""
    fi = prog.role_func("grid", "__init__")
    out = {}
    for n in walk_no_nested(fi.node):
        if isinstance(n, (ast.Assign, ast.AnnAssign)):
            t = n.targets[0] if isinstance(n, ast.Assign) else n.target
            if not (isinstance(t, ast.Attribute) and unparse(t.value) == "self") or n.value is None:
                continue
            for sub in ast.walk(n.value):
                if isinstance(sub, ast.Subscript) and isinstance(sub.slice, ast.Tuple) and len(sub.slice.elts) == 2 and isinstance(sub.value, ast.Subscript) and unparse(expand_locals(sub.value.value, fi.node)).endswith(".variables"):  # `ncvars = ncid.variables` read through
                    a, b = unparse(sub.slice.elts[0]), unparse(sub.slice.elts[1])
                    if a.startswith("self.") and b.startswith("self."):
                        out[t.attr] = (a[5:], b[5:])
    return out
