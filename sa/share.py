"""Obligations of one property reported under a rule of another.

Several properties rest on an obligation that another property's check owns (the record time of the step
protocol is the time coordinate rule of the output records; restart transparency rests on the forcing's priming
at an arbitrary start; the kernels' bounds rest on the wiring of the level arrays). `share` evaluates the owner
once per program, and copies the obligations of the named rules - never one that is a recorded known finding of
the owner - under the borrowing property's rule id, prefixed with the owner's rule."""

from __future__ import annotations

import importlib

from .program import AnalysisError, Program
from .report import Report, load_known_findings


def owner_report(prog: Program, pid: str) -> Report:
    cache = prog.__dict__.setdefault("_owner_reports", {})
    if pid not in cache:
        running = prog.__dict__.setdefault("_owner_running", set())
        if pid in running:
            raise AnalysisError(f"cyclic sharing through {pid}")
        running.add(pid)
        try:
            mod = importlib.import_module(f"sa.rules.{pid.lower()}")
            sub = Report(pid=pid, tier="quick")
            mod.run(prog, sub, "quick")
            cache[pid] = sub
        finally:
            running.discard(pid)
    return cache[pid]


def share(prog: Program, rep: Report, owner: str, rules: tuple, as_rule: str, text: str, floor: int = 1, only=None) -> int:
    """Copy the obligations of `rules` of property `owner` into `rep` as `as_rule`. `only(o)` filters."""
    if prog.__dict__.get("_owner_running"):
        # an owner is being evaluated for somebody else: only its own rules are wanted, and borrowing in
        # turn could go round in a circle (C06 <-> C13)
        return 0
    sub = owner_report(prog, owner)
    known = {e["key"] for e in load_known_findings() if e["property"] == owner and e["status"] == "open"}
    rep.rule(as_rule, f"{text} (shared with {owner} {', '.join(rules)})", floor)
    n = 0
    for o in sub.obligations:
        if o.rule not in rules or o.key in known:
            continue
        if only is not None and not only(o):
            continue
        rep.add(as_rule, o.func, f"[{o.rule}] {o.construct}", o.verdict == "ok" if o.verdict != "undecided" else None, o.what, o.loc)
        n += 1
    return n
