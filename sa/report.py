"""Obligations, known-finding matching, evidence files and exit codes."""

from __future__ import annotations

import builtins as _b


def print(*a, **k):  # a closed pipe (| head) must not turn into an analysis error
    try:
        _b.print(*a, **k)
    except BrokenPipeError:
        pass

import json
import os
import sys
import time
from dataclasses import dataclass, field
from pathlib import Path
from typing import Any, Optional

VERIF = Path(__file__).resolve().parent.parent
# scratch runs against a copy of the tree (tools/seed_matrix_par.sh) write their evidence elsewhere
EVIDENCE_DIR = Path(os.environ.get("SA_EVIDENCE_DIR") or VERIF / "evidence")
KNOWN_FINDINGS = VERIF / "known_findings.json"

OK, VIOLATION, UNDECIDED = "ok", "violation", "undecided"


@dataclass
class Obligation:
    rule: str  # "R01.1"
    func: str  # qualified function, or "-" for table rules
    construct: str  # normalised construct text (key part)
    verdict: str  # ok / violation / undecided
    what: str = ""  # human explanation (witness for a violation)
    loc: str = ""  # file:line (diagnostic only, never part of the key)
    nontrivial: bool = True  # used at least one fact derived from the source

    @property
    def key(self) -> str:
        return f"{self.rule}|{self.func}|{self.construct}"

    def as_sample(self) -> dict[str, Any]:
        d = {
            "rule": self.rule,
            "function": self.func,
            "construct": self.construct,
            "verdict": self.verdict,
        }
        if self.what:
            d["what"] = self.what
        return d


def load_known_findings() -> list[dict[str, Any]]:
    if not KNOWN_FINDINGS.exists():
        return []
    data = json.loads(KNOWN_FINDINGS.read_text())
    out = []
    for e in data.get("findings", []):
        for k in ("property", "rule", "key", "what", "status"):
            if k not in e:
                raise ValueError(f"known_findings.json: entry without {k!r}: {e}")
        out.append(e)
    return out


@dataclass
class Report:
    pid: str
    tier: str = "quick"
    level: str = "other"
    explanation: str = ""
    trusted_base: list[str] = field(default_factory=list)
    assumptions: list[str] = field(default_factory=list)
    obligations: list[Obligation] = field(default_factory=list)
    notes: list[str] = field(default_factory=list)
    extra: dict[str, Any] = field(default_factory=dict)
    t0: float = field(default_factory=time.time)
    rule_floor: dict[str, int] = field(default_factory=dict)
    rule_text: dict[str, str] = field(default_factory=dict)

    # ------------------------------------------------------------------
    def rule(self, rid: str, text: str, floor: int = 1) -> None:
        """Declare a rule: its statement and the minimum number of instances
        confirmed by hand on the reference tree (G6)."""
        self.rule_text[rid] = text
        self.rule_floor[rid] = floor

    def add(
        self,
        rule: str,
        func: str,
        construct: str,
        ok: Optional[bool],
        what: str = "",
        loc: str = "",
        nontrivial: bool = True,
    ) -> Obligation:
        verdict = OK if ok is True else VIOLATION if ok is False else UNDECIDED
        construct = " ".join(str(construct).split())
        o = Obligation(rule, func, construct, verdict, what, loc, nontrivial)
        self.obligations.append(o)
        return o

    def ok(self, rule, func, construct, what="", loc="", nontrivial=True):
        return self.add(rule, func, construct, True, what, loc, nontrivial)

    def bad(self, rule, func, construct, what="", loc=""):
        return self.add(rule, func, construct, False, what, loc)

    def check(self, rule, func, construct, cond, what_bad="", what_ok="", loc=""):
        return self.add(
            rule, func, construct, bool(cond), what_ok if cond else what_bad, loc
        )

    def note(self, s: str) -> None:
        self.notes.append(s)

    # ------------------------------------------------------------------
    def finish(self, program=None) -> int:
        """Print the report, write evidence, return the exit code."""
        known = [
            e
            for e in load_known_findings()
            if e["property"] == self.pid and e["status"] == "open"
        ]
        known_keys = {e["key"]: e for e in known}
        violations = [o for o in self.obligations if o.verdict == VIOLATION]
        matched: list[tuple[Obligation, dict]] = []
        unlisted: list[Obligation] = []
        for o in violations:
            if o.key in known_keys:
                matched.append((o, known_keys[o.key]))
            else:
                unlisted.append(o)

        # instance floors (G6): a rule that matches fewer instances than were
        # confirmed by hand has lost its anchors -> the analysis is broken.
        counts: dict[str, int] = {}
        for o in self.obligations:
            counts[o.rule] = counts.get(o.rule, 0) + 1
        floor_errors = []
        for rid, floor in self.rule_floor.items():
            if counts.get(rid, 0) < floor:
                floor_errors.append(
                    f"rule {rid} matched {counts.get(rid, 0)} instance(s), "
                    f"floor is {floor}"
                )

        wall = time.time() - self.t0
        n_ok = sum(1 for o in self.obligations if o.verdict == OK)
        n_und = sum(1 for o in self.obligations if o.verdict == UNDECIDED)
        print(
            f"[{self.pid}] tier={self.tier} rules={len(self.rule_text)} "
            f"obligations={len(self.obligations)} discharged={n_ok} "
            f"undecided={n_und} violations={len(violations)} "
            f"known={len(matched)} wall={wall:.2f}s"
        )
        for rid in sorted(self.rule_text):
            c = counts.get(rid, 0)
            nbad = sum(
                1 for o in self.obligations if o.rule == rid and o.verdict == VIOLATION
            )
            print(f"  {rid}: {c} instance(s), {nbad} violating - {self.rule_text[rid]}")
        for o in self.obligations:
            if o.verdict == UNDECIDED:
                print(f"  UNDECIDED {o.loc} {o.func} {o.rule} {o.construct} - {o.what}")
        for s in self.notes:
            print(f"  note: {s}")

        for o, e in matched:
            print(f"KNOWN-FINDING: property={self.pid} {e['what']}  [{o.rule} {o.func}]")

        code = 0
        replay_path = EVIDENCE_DIR / "replay" / f"{self.pid}.json"
        if unlisted:
            code = 1
            replay_path.parent.mkdir(parents=True, exist_ok=True)
            replay_path.write_text(
                json.dumps(
                    {
                        "property": self.pid,
                        "findings": [
                            {**o.as_sample(), "key": o.key, "loc": o.loc}
                            for o in unlisted
                        ],
                    },
                    indent=1,
                )
            )
            print(f"VIOLATION property={self.pid} replay={replay_path}")
            for o in unlisted:
                print(
                    f"  {o.loc} {o.func} {o.rule} `{o.construct}` - {o.what}"
                )
        if floor_errors and code == 0:
            for m in floor_errors:
                print(f"ANALYSIS-ERROR property={self.pid} {m}")
            code = 2

        self._write_evidence(program, wall, violations, matched, unlisted, n_ok)
        return code

    # ------------------------------------------------------------------
    def _write_evidence(self, program, wall, violations, matched, unlisted, n_ok):
        EVIDENCE_DIR.mkdir(parents=True, exist_ok=True)
        obls = self.obligations
        distinct = {o.key for o in obls if o.nontrivial}
        per_rule: dict[str, dict[str, Any]] = {}
        for o in obls:
            r = per_rule.setdefault(
                o.rule,
                {
                    "statement": self.rule_text.get(o.rule, ""),
                    "instances": 0,
                    "discharged": 0,
                    "violations": 0,
                    "undecided": 0,
                },
            )
            r["instances"] += 1
            r["discharged" if o.verdict == OK else "violations" if o.verdict == VIOLATION else "undecided"] += 1
        # samples: every violating/undecided obligation + a spread of discharged ones
        samples = [o.as_sample() for o in obls if o.verdict != OK]
        seen_rules: dict[str, int] = {}
        for o in obls:
            if o.verdict == OK and seen_rules.get(o.rule, 0) < 4:
                seen_rules[o.rule] = seen_rules.get(o.rule, 0) + 1
                samples.append(o.as_sample())
        cmd = f"./check {self.pid}" + (" --thorough" if self.tier == "thorough" else "")
        cov: dict[str, Any] = {
            "explanation": self.explanation,
            "evaluations": len(obls),
            "distinct_nontrivial": len(distinct),
            "rule": "one evaluation per (rule, function, construct) obligation "
            "enumerated from the current source; non-trivial = decided with at "
            "least one fact extracted from the source (not a constant of the checker); "
            "distinct by obligation key",
            "samples": samples,
            # obligations of the claim: a listed known finding is an unenforced assumption / recorded defect,
            # reported separately (known_findings_matched), not a proof obligation
            "obligations": len([o for o in obls if o.key not in {e["key"] for _, e in matched}]),
            "discharged": n_ok,
            "checker_cmd": cmd,
            "trusted_base": self.trusted_base,
            "exhaustive": True,
            "rules": per_rule,
            "known_findings_matched": [e["key"] for _, e in matched],
            "undecided": [o.as_sample() for o in obls if o.verdict == UNDECIDED],
        }
        if program is not None:
            cov["files_analysed"] = program.digests()
            cov["functions_indexed"] = sum(len(m.functions) for m in program.modules.values())
        cov.update(self.extra)
        ev = {
            "property_id": self.pid,
            "tier": self.tier,
            "seed": int(os.environ.get("VERIF_SEED", "0") or 0),
            "level": self.level,
            "coverage": cov,
            "assumptions": self.assumptions,
            "wall_s": round(wall, 3),
            "violations": len(unlisted),
        }
        (EVIDENCE_DIR / f"{self.pid}.json").write_text(json.dumps(ev, indent=1, default=str))


def analysis_error(pid: str, msg: str, tier: str = "quick") -> int:
    print(f"ANALYSIS-ERROR property={pid} {msg}")
    sys.stdout.flush()
    return 2
