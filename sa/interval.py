"""E5 - symbolic intervals: interval endpoints are affine forms over integer grid symbols
(i0, imax, jmax, kmax ...) and positive reals (h).  Inequalities between affine forms are decided
by substituting the known lower bounds of the symbols (no solver).  Used for the bounds proof of
the compiled kernels (C17) and the reflection proof of the vertical step (C15).
"""

from __future__ import annotations

import ast
import math
from dataclasses import dataclass, field
from fractions import Fraction
from typing import Any, Optional

from .interp import Domain, Interp, Phi, Ref, Tup, Unsupported, vtext
from .program import short, unparse


class Aff:
    """sum(coef * sym) + const"""

    __slots__ = ("t", "c")

    def __init__(self, terms: Optional[dict] = None, const=0) -> None:
        self.t = {k: Fraction(v) for k, v in (terms or {}).items() if v != 0}
        self.c = Fraction(const) if not isinstance(const, float) else Fraction(str(const))

    @staticmethod
    def sym(name: str) -> "Aff":
        return Aff({name: 1}, 0)

    def __add__(self, o) -> "Aff":
        o = o if isinstance(o, Aff) else Aff(None, o)
        t = dict(self.t)
        for k, v in o.t.items():
            t[k] = t.get(k, 0) + v
        return Aff(t, self.c + o.c)

    def __neg__(self) -> "Aff":
        return Aff({k: -v for k, v in self.t.items()}, -self.c)

    def __sub__(self, o) -> "Aff":
        o = o if isinstance(o, Aff) else Aff(None, o)
        return self + (-o)

    def scale(self, f) -> "Aff":
        f = Fraction(f) if not isinstance(f, float) else Fraction(str(f))
        return Aff({k: v * f for k, v in self.t.items()}, self.c * f)

    def is_const(self) -> bool:
        return not self.t

    def __eq__(self, o) -> bool:  # type: ignore[override]
        return isinstance(o, Aff) and self.t == o.t and self.c == o.c

    def __hash__(self) -> int:
        return hash((tuple(sorted(self.t.items())), self.c))

    def __repr__(self) -> str:
        parts = []
        for k in sorted(self.t):
            v = self.t[k]
            parts.append(k if v == 1 else (f"-{k}" if v == -1 else f"{v}*{k}"))
        if self.c != 0 or not parts:
            parts.append(str(self.c))
        return " + ".join(parts).replace("+ -", "- ")


class Facts:
    """Lower bounds (and integrality) of the symbols."""

    def __init__(self, lower: dict[str, Any], integer: set[str], strict: Optional[set[str]] = None, upper: Optional[dict[str, Any]] = None) -> None:
        self.lower = {k: Fraction(v) for k, v in lower.items()}
        self.upper = {k: Fraction(v) for k, v in (upper or {}).items()}
        self.integer = set(integer)
        self.strict = set(strict or ())  # symbols whose lower bound is strict (h > 0)

    def min_of(self, a: Aff) -> tuple[Optional[Fraction], bool]:
        """(greatest provable lower bound of a, attained?)"""
        total = a.c
        attained = True
        for k, v in a.t.items():
            if v > 0:
                if k not in self.lower:
                    return None, False
                total += v * self.lower[k]
                if k in self.strict:
                    attained = False
            else:
                if k not in self.upper:
                    return None, False
                total += v * self.upper[k]
        return total, attained

    def le(self, a: Aff, b: Aff) -> bool:
        m, _ = self.min_of(b - a)
        return m is not None and m >= 0

    def lt(self, a: Aff, b: Aff) -> bool:
        m, att = self.min_of(b - a)
        return m is not None and (m > 0 or (m == 0 and not att))

    def is_integer(self, a: Aff) -> bool:
        return a.c.denominator == 1 and all(v.denominator == 1 and k in self.integer for k, v in a.t.items())

    def floor(self, a: Aff) -> Optional[Aff]:
        if all(v.denominator == 1 and k in self.integer for k, v in a.t.items()):
            return Aff(a.t, math.floor(a.c))
        return None

    def ceil(self, a: Aff) -> Optional[Aff]:
        if all(v.denominator == 1 and k in self.integer for k, v in a.t.items()):
            return Aff(a.t, math.ceil(a.c))
        return None


@dataclass
class Iv:
    lo: Optional[Aff]  # None = -inf
    hi: Optional[Aff]  # None = +inf
    lo_open: bool = False
    hi_open: bool = False
    integer: bool = False

    @staticmethod
    def top() -> "Iv":
        return Iv(None, None)

    @staticmethod
    def point(a) -> "Iv":
        a = a if isinstance(a, Aff) else Aff(None, a)
        return Iv(a, a, False, False, a.c.denominator == 1)

    def is_point(self) -> bool:
        return self.lo is not None and self.hi is not None and self.lo == self.hi and not self.lo_open and not self.hi_open

    def is_top(self) -> bool:
        return self.lo is None and self.hi is None

    def __repr__(self) -> str:
        l = "(" if self.lo_open or self.lo is None else "["
        r = ")" if self.hi_open or self.hi is None else "]"
        return f"{l}{'-inf' if self.lo is None else self.lo}, {'+inf' if self.hi is None else self.hi}{r}" + ("Z" if self.integer else "")

    def canon(self) -> str:
        return repr(self)


@dataclass
class Arr:
    """A gridded array with a known symbolic shape."""

    name: str
    shape: list  # list[Aff]

    def __repr__(self) -> str:
        return f"Arr({self.name}, {self.shape})"

    def canon(self) -> str:
        return f"{self.name}{self.shape}"


@dataclass
class MaskV:
    """Boolean mask from a comparison; `var` is the variable name compared, if any."""

    op: str
    a: Any
    b: Any
    var: Optional[str] = None
    negated: bool = False
    var2: Optional[str] = None  # the variable on the right-hand side of the comparison, if it is a name

    def canon(self) -> str:
        return f"{'not ' if self.negated else ''}{self.var or vtext(self.a)} {self.op} {vtext(self.b)}"


@dataclass
class Obligation:
    func: str
    construct: str
    array: str
    axis: int
    index: str
    dim: str
    ok: bool
    chain: str
    line: int
    what: str = ""


class IntervalDomain(Domain):
    def __init__(self, facts: Facts, npart: str = "npart") -> None:
        self.facts = facts
        self.npart = npart
        self.obligations: list[Obligation] = []
        self.context = ""

    # -- basics ----------------------------------------------------------
    def const(self, c):
        return Iv.point(Aff(None, c))

    def atom(self, name: str):
        return Iv.top()

    def is_value(self, v) -> bool:
        return isinstance(v, (Iv, Arr, MaskV))

    def sym(self, name: str) -> Iv:
        return Iv.point(Aff.sym(name))

    # -- arithmetic ------------------------------------------------------
    def _iv(self, v) -> Iv:
        if isinstance(v, Iv):
            return v
        if isinstance(v, Arr):
            return Iv.top()  # contents of gridded arrays are unknown
        if isinstance(v, MaskV):
            return Iv(Aff(None, 0), Aff(None, 1), False, False, True)
        return Iv.top()

    def binop(self, op, a, b, node):
        if isinstance(a, Arr) or isinstance(b, Arr):
            # element-wise arithmetic keeps the shape
            arr = a if isinstance(a, Arr) else b
            other = b if isinstance(a, Arr) else a
            if isinstance(other, Arr) and [repr(s) for s in other.shape] != [repr(s) for s in arr.shape] and len(other.shape) == len(arr.shape):
                self.obligations.append(Obligation(self.context, short(node), f"{arr.name} op {other.name}", -1, "", "", False, "", getattr(node, "lineno", 0), f"shapes differ: {arr.shape} vs {other.shape}"))
            if isinstance(other, Arr) and len(other.shape) > len(arr.shape):
                arr = other
            return Arr(arr.name, arr.shape)
        a, b = self._iv(a), self._iv(b)
        if isinstance(op, ast.Add):
            return Iv(None if a.lo is None or b.lo is None else a.lo + b.lo, None if a.hi is None or b.hi is None else a.hi + b.hi, a.lo_open or b.lo_open, a.hi_open or b.hi_open, a.integer and b.integer)
        if isinstance(op, ast.Sub):
            return self.binop(ast.Add(), a, self.unop(ast.USub(), b, node), node)
        if isinstance(op, ast.Mult):
            for x, y in ((a, b), (b, a)):
                if x.is_point() and x.lo.is_const():
                    c = x.lo.c
                    if c == 0:
                        return Iv.point(0)
                    lo = None if y.lo is None else y.lo.scale(c)
                    hi = None if y.hi is None else y.hi.scale(c)
                    if c > 0:
                        return Iv(lo, hi, y.lo_open, y.hi_open, y.integer and c.denominator == 1)
                    return Iv(hi, lo, y.hi_open, y.lo_open, y.integer and c.denominator == 1)
            return Iv.top()
        if isinstance(op, ast.Div):
            if b.is_point() and b.lo.is_const() and b.lo.c != 0:
                return self.binop(ast.Mult(), a, Iv.point(Aff(None, 1 / b.lo.c)), node)
            return Iv.top()
        if isinstance(op, (ast.BitAnd, ast.BitOr)):
            return MaskV("bool", a, b)
        return Iv.top()

    def unop(self, op, a, node):
        if isinstance(a, Arr):
            return a
        if isinstance(a, MaskV):
            if isinstance(op, (ast.Invert, ast.Not)):
                return MaskV(a.op, a.a, a.b, a.var, not a.negated)
            return a
        a = self._iv(a)
        if isinstance(op, ast.USub):
            return Iv(None if a.hi is None else -a.hi, None if a.lo is None else -a.lo, a.hi_open, a.lo_open, a.integer)
        if isinstance(op, ast.UAdd):
            return a
        return Iv.top()

    # -- comparisons -----------------------------------------------------
    def compare(self, op, a, b, node):
        if isinstance(a, (Arr, MaskV)) or isinstance(b, (Arr, MaskV)):
            return MaskV(type(op).__name__, a, b)
        a, b = self._iv(a), self._iv(b)
        f = self.facts
        name = type(op).__name__
        var = None
        if isinstance(node, ast.Compare) and isinstance(node.left, ast.Name):
            var = node.left.id
        def lt(x: Iv, y: Iv) -> bool:  # every element of x < every element of y
            return x.hi is not None and y.lo is not None and (f.lt(x.hi, y.lo) or (f.le(x.hi, y.lo) and (x.hi_open or y.lo_open)))
        def le(x: Iv, y: Iv) -> bool:
            return x.hi is not None and y.lo is not None and f.le(x.hi, y.lo)
        if name == "Lt":
            if lt(a, b):
                return True
            if le(b, a):
                return False
        elif name == "LtE":
            if le(a, b):
                return True
            if lt(b, a):
                return False
        elif name == "Gt":
            if lt(b, a):
                return True
            if le(a, b):
                return False
        elif name == "GtE":
            if le(b, a):
                return True
            if lt(a, b):
                return False
        elif name == "Eq":
            if a.is_point() and b.is_point() and a.lo == b.lo:
                return True
            if lt(a, b) or lt(b, a):
                return False
        elif name == "NotEq":
            if lt(a, b) or lt(b, a):
                return True
            if a.is_point() and b.is_point() and a.lo == b.lo:
                return False
        var2 = node.comparators[0].id if isinstance(node, ast.Compare) and len(node.comparators) == 1 and isinstance(node.comparators[0], ast.Name) else None
        return MaskV(name, a, b, var, False, var2)

    def boolop(self, op, values, node):
        return MaskV("bool", values[0], values[-1])

    # -- refinement ------------------------------------------------------
    def _restrict(self, v: Iv, opname: str, bound: Iv, taken: bool) -> Optional[Iv]:
        """v restricted to (v op bound) == taken; None if the restriction is empty."""
        neg = {"Lt": "GtE", "LtE": "Gt", "Gt": "LtE", "GtE": "Lt", "Eq": "NotEq", "NotEq": "Eq"}
        if not taken:
            opname = neg.get(opname, opname)
        f = self.facts
        lo, hi, lo_open, hi_open = v.lo, v.hi, v.lo_open, v.hi_open
        if opname in ("Lt", "LtE"):
            # upper bound: bound.hi
            if bound.hi is not None:
                strict = opname == "Lt"
                if v.integer and bound.integer and strict:
                    nb, nopen = bound.hi - 1, False
                else:
                    nb, nopen = bound.hi, strict or bound.hi_open
                if hi is None or f.le(nb, hi):
                    hi, hi_open = nb, nopen if (hi is None or not (nb == hi)) else (hi_open or nopen)
        elif opname in ("Gt", "GtE"):
            if bound.lo is not None:
                strict = opname == "Gt"
                if v.integer and bound.integer and strict:
                    nb, nopen = bound.lo + 1, False
                else:
                    nb, nopen = bound.lo, strict or bound.lo_open
                if lo is None or f.le(lo, nb):
                    lo, lo_open = nb, nopen if (lo is None or not (nb == lo)) else (lo_open or nopen)
        elif opname == "Eq":
            if bound.is_point():
                lo = hi = bound.lo
                lo_open = hi_open = False
        elif opname == "NotEq":
            # integer end points can be trimmed
            if v.integer and bound.is_point():
                if hi is not None and bound.lo == hi and not hi_open:
                    hi = hi - 1
                if lo is not None and bound.lo == lo and not lo_open:
                    lo = lo + 1
        return Iv(lo, hi, lo_open, hi_open, v.integer)

    def refine(self, interp, env: dict, test: ast.expr, taken: bool) -> None:
        neg = False
        while isinstance(test, ast.UnaryOp) and isinstance(test.op, ast.Not):
            neg = not neg
            test = test.operand
        if neg:
            taken = not taken
        if isinstance(test, ast.Compare) and len(test.ops) == 1:
            fr = interp.stack[-1] if interp.stack else None
            flip = {"Lt": "Gt", "Gt": "Lt", "LtE": "GtE", "GtE": "LtE", "Eq": "Eq", "NotEq": "NotEq"}
            opname = type(test.ops[0]).__name__
            left, right = test.left, test.comparators[0]
            # both readings of the comparison refine their variable: `xmax < x` restricts x as `x > xmax` does
            for var_node, other, op in ((left, right, opname), (right, left, flip.get(opname))):
                if op is None or not (isinstance(var_node, ast.Name) and var_node.id in env and isinstance(env[var_node.id], Iv)):
                    continue
                try:
                    b = interp.eval(other, fr) if fr is not None else None
                except Exception:
                    b = None
                if isinstance(b, Iv):
                    r = self._restrict(env[var_node.id], op, b, taken)
                    if r is not None:
                        env[var_node.id] = r

    def refine_for_mask(self, env: dict, mask, taken: bool) -> dict:
        """Restrict the compared variable under the mask; returns the saved bindings."""
        saved = {}
        if isinstance(mask, MaskV) and mask.var and mask.var in env and isinstance(env[mask.var], Iv) and isinstance(mask.b, Iv):
            t = taken != mask.negated
            saved[mask.var] = env[mask.var]
            r = self._restrict(env[mask.var], mask.op, mask.b, t)
            if r is not None:
                env[mask.var] = r
        # the same comparison read from the right: `h < Z` restricts Z as `Z > h` does
        flip = {"Lt": "Gt", "Gt": "Lt", "LtE": "GtE", "GtE": "LtE", "Eq": "Eq", "NotEq": "NotEq"}
        if isinstance(mask, MaskV) and mask.var2 and mask.var2 in env and isinstance(env[mask.var2], Iv) and isinstance(mask.a, Iv) and mask.op in flip and mask.var2 not in saved:
            t = taken != mask.negated
            saved[mask.var2] = env[mask.var2]
            r = self._restrict(env[mask.var2], flip[mask.op], mask.a, t)
            if r is not None:
                env[mask.var2] = r
        return saved

    # -- joins -------------------------------------------------------------
    def hull(self, a, b):
        if isinstance(a, Arr) or isinstance(b, Arr):
            return a if isinstance(a, Arr) else b
        a, b = self._iv(a), self._iv(b)
        f = self.facts
        if a.lo is None or b.lo is None:
            lo, lo_open = None, False
        elif f.le(a.lo, b.lo):
            lo, lo_open = a.lo, a.lo_open and (b.lo_open or not (a.lo == b.lo))
        elif f.le(b.lo, a.lo):
            lo, lo_open = b.lo, b.lo_open and (a.lo_open or not (a.lo == b.lo))
        else:
            lo, lo_open = None, False
        if a.hi is None or b.hi is None:
            hi, hi_open = None, False
        elif f.le(b.hi, a.hi):
            hi, hi_open = a.hi, a.hi_open and (b.hi_open or not (a.hi == b.hi))
        elif f.le(a.hi, b.hi):
            hi, hi_open = b.hi, b.hi_open and (a.hi_open or not (a.hi == b.hi))
        else:
            hi, hi_open = None, False
        return Iv(lo, hi, lo_open, hi_open, a.integer and b.integer)

    def join(self, test, a, b, cond=None):
        if isinstance(a, (Iv, Arr)) and isinstance(b, (Iv, Arr)):
            return self.hull(a, b)
        return Phi(test, a, b, cond)

    def where(self, mask, new, old, node):
        if isinstance(new, (Iv, Arr)) and isinstance(old, (Iv, Arr)):
            return self.hull(new, old)
        if isinstance(new, bool) or isinstance(old, bool):
            return MaskV("bool", new, old)
        return Iv.top()

    def loop_index(self, name, iter_node, interp):
        # for n in prange(N): 0 <= n <= N - 1 (N = number of particles)
        return Iv(Aff(None, 0), Aff.sym(self.npart) - 1, False, False, True)

    # -- arrays ----------------------------------------------------------
    def elem(self, base, base_text, idx, node, interp):
        fr = interp.stack[-1] if interp.stack else None
        func = fr.fi.qual if fr is not None else "?"
        chain = interp.chain() + (f" -> {func}" if func else "")
        line = getattr(node, "lineno", 0)
        if isinstance(base, Arr):
            shape = base.shape
            out_shape = []
            for ax, v in enumerate(idx):
                if ax >= len(shape):
                    self.obligations.append(Obligation(func, short(node), base.name, ax, str(v), "-", False, chain, line, f"too many indices for {base.name}{shape}"))
                    continue
                if isinstance(v, tuple) and v and v[0] == "slice":
                    out_shape.append(shape[ax])
                    continue
                if isinstance(v, Ref) and v.path.startswith("slice:"):
                    out_shape.append(shape[ax])
                    continue
                iv = self._iv(v) if not isinstance(v, Ref) else Iv.top()
                dim = shape[ax]
                ok_lo = iv.lo is not None and self.facts.le(Aff(None, 0), iv.lo)
                ok_hi = iv.hi is not None and (self.facts.le(iv.hi, dim - 1) or (iv.hi_open and iv.integer is False and self.facts.le(iv.hi, dim)))
                what = f"index range {iv} on axis {ax} of {base.name} (length {dim})"
                if not ok_lo:
                    what += "; lower end may be negative (wraps silently / reads outside)"
                if not ok_hi:
                    what += f"; upper end may exceed {dim - 1}"
                self.obligations.append(Obligation(func, short(node), base.name, ax, repr(iv), repr(dim), ok_lo and ok_hi, chain, line, what))
            rest = out_shape + list(shape[len(idx):])
            if rest:
                return Arr(base.name + "[...]", rest)
            return Iv.top()
        # per-particle array indexed by something other than the loop variable
        if len(idx) == 1 and not isinstance(idx[0], tuple):
            v = idx[0]
            if isinstance(v, MaskV) or (isinstance(v, Ref) and not v.path.startswith("slice:")) or isinstance(v, Arr):
                return self._iv(base) if isinstance(base, Iv) else Iv.top()  # boolean mask / fancy index with a per-particle array
            if isinstance(v, Iv):
                if isinstance(base, Iv) or isinstance(base, Ref):
                    # fancy index arrays (I, J of all particles) are per-particle too: X[J] style is not used in kernels
                    dim = Aff.sym(self.npart)
                    ok = v.lo is not None and self.facts.le(Aff(None, 0), v.lo) and v.hi is not None and self.facts.le(v.hi, dim - 1)
                    if v.integer and not v.is_top():
                        self.obligations.append(Obligation(func, short(node), base_text, 0, repr(v), repr(dim), ok, chain, line, f"per-particle array {base_text} indexed with {v} (length {dim})"))
                    return base if isinstance(base, Iv) else Iv.top()
        return Iv.top()

    # -- calls -----------------------------------------------------------
    def call(self, fname, args, kwargs, node, interp):
        f = self.facts
        base = fname.split(".")[-1]
        def iv(v):
            return self._iv(v) if self.is_value(v) else (Iv.top() if not isinstance(v, (int, float)) else Iv.point(v))
        if fname in ("int", "np.trunc", "np.fix") and args:
            return self._trunc(iv(args[0]))
        if fname == ".astype" and len(args) == 2:
            t = args[1]
            tt = t if isinstance(t, str) else (t.path if isinstance(t, Ref) else "")
            tl = tt.lower().replace("np.", "").replace("numpy.", "")
            if tl in ("i", "i2", "i4", "i8", "l", "q") or tl.startswith(("int", "uint", "long")):
                return self._trunc(iv(args[0]))
            return args[0]
        if fname in ("np.floor",) and args:
            return self._floor(iv(args[0]))
        if fname in ("np.around", "np.round", "np.rint", ".round", "round") and args:
            a = iv(args[0])
            lo = None if a.lo is None else f.ceil(a.lo - Fraction(1, 2))
            hi = None if a.hi is None else f.floor(a.hi + Fraction(1, 2))
            return Iv(lo, hi, False, False, True)
        if fname in ("min", "np.minimum") and len(args) == 2:
            a, b = iv(args[0]), iv(args[1])
            return self._min(a, b)
        if fname in ("max", "np.maximum") and len(args) == 2:
            a, b = iv(args[0]), iv(args[1])
            na, nb = self.unop(ast.USub(), a, node), self.unop(ast.USub(), b, node)
            return self.unop(ast.USub(), self._min(na, nb), node)
        if fname == "np.clip" and len(args) == 3:
            a = self._min(iv(args[0]), iv(args[2]))
            na, nb = self.unop(ast.USub(), a, node), self.unop(ast.USub(), iv(args[1]), node)
            return self.unop(ast.USub(), self._min(na, nb), node)
        if fname in ("abs", "np.abs") and args:
            a = iv(args[0])
            if a.lo is not None and f.le(Aff(None, 0), a.lo):
                return a
            if a.lo is not None and a.hi is not None:
                nl = -a.lo
                hi = a.hi if f.le(nl, a.hi) else (nl if f.le(a.hi, nl) else None)
                return Iv(Aff(None, 0), hi, False, a.lo_open or a.hi_open, a.integer)
            return Iv(Aff(None, 0), None)
        if fname in ("len", ".size") and args:
            v = args[0]
            if isinstance(v, Arr):
                return Iv.point(v.shape[0])
            if isinstance(v, Tup):
                return Iv.point(len(v.items))
            return Iv.point(Aff.sym(self.npart))
        if fname == ".shape" and args and isinstance(args[0], Arr):
            return Tup([Iv.point(s) for s in args[0].shape])
        if fname == "np.searchsorted" and len(args) >= 2:
            a = args[0]
            n = a.shape[0] if isinstance(a, Arr) else Aff.sym(self.npart)
            return Iv(Aff(None, 0), n, False, False, True)
        if fname in ("np.ones", "np.ones_like"):
            return Iv.point(1)
        if fname in ("np.zeros", "np.zeros_like"):
            return Iv.point(0)
        if fname in ("np.empty", "np.empty_like", "np.full"):
            return Iv.top()
        if fname in ("np.asarray", "np.array", "float", ".copy", "np.float32", "np.float64") and args:
            return args[0]
        if fname == "np.multiply" and len(args) >= 2:
            return self.binop(ast.Mult(), args[0], args[1], node)
        if fname in ("np.add",) and len(args) == 2:
            return self.binop(ast.Add(), args[0], args[1], node)
        if fname == "np.where" and len(args) == 3:
            return self.hull(iv(args[1]), iv(args[2]))
        if fname in ("np.sqrt", "np.sinh", "np.cosh", "np.tanh", "np.exp"):
            return Iv.top()
        return NotImplemented

    def _min(self, a: Iv, b: Iv) -> Iv:
        f = self.facts
        # upper end: min of the upper ends
        if a.hi is None:
            hi, hi_open = b.hi, b.hi_open
        elif b.hi is None:
            hi, hi_open = a.hi, a.hi_open
        elif f.le(a.hi, b.hi):
            hi, hi_open = a.hi, a.hi_open
        elif f.le(b.hi, a.hi):
            hi, hi_open = b.hi, b.hi_open
        else:
            hi, hi_open = a.hi, a.hi_open  # both are upper bounds of the minimum: either is sound
        if a.lo is None or b.lo is None:
            lo, lo_open = None, False
        elif f.le(a.lo, b.lo):
            lo, lo_open = a.lo, a.lo_open
        elif f.le(b.lo, a.lo):
            lo, lo_open = b.lo, b.lo_open
        else:
            lo, lo_open = None, False
        return Iv(lo, hi, lo_open, hi_open, a.integer and b.integer)

    def _floor(self, a: Iv) -> Iv:
        f = self.facts
        lo = None if a.lo is None else f.floor(a.lo)
        hi = None
        if a.hi is not None:
            if a.hi_open:
                c = f.ceil(a.hi)
                hi = None if c is None else c - 1
            else:
                hi = f.floor(a.hi)
        return Iv(lo, hi, False, False, True)

    def _trunc(self, a: Iv) -> Iv:
        f = self.facts
        if a.integer:
            return a
        if a.lo is not None and f.le(Aff(None, 0), a.lo):
            return self._floor(a)
        # may be negative: trunc(x) >= floor(x) and <= ceil(x)
        lo = None if a.lo is None else f.floor(a.lo)
        hi = None if a.hi is None else f.ceil(a.hi)
        if a.lo is not None and a.lo_open and lo is not None and f.is_integer(a.lo):
            pass
        return Iv(lo, hi, False, False, True)


def nf_to_aff(nf, subst: dict[str, Aff]) -> Optional[Aff]:
    """Affine normal form (from sa/nf.py) -> Aff with atoms renamed / substituted."""
    out = Aff(None, 0)
    if not nf.is_poly():
        return None
    for m, c in nf.num.items():
        if len(m) == 0:
            out = out + Aff(None, c)
        elif len(m) == 1 and m[0][1] == 1 and m[0][0] in subst:
            out = out + subst[m[0][0]].scale(c)
        else:
            return None
    return out.scale(1 / nf.den[()])
