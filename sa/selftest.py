"""E8 - sensitivity audit (thorough tier).

Every rule module may define ``AUDIT``: a list of ``Mut`` witnesses.  Each witness is a
small source edit applied to a *scratch copy of the current tree* (mktemp, removed at
once); the property's rules are re-run on the copy, still without executing anything:

  expect="fire"    the edit breaks the property -> the named rule must report a violation
  expect="silent"  the edit preserves behaviour  -> no rule of the property may report one

A witness whose anchor text no longer occurs in the current tree is "not applicable"
(skipped and listed).  An audit mismatch means the *machinery* is broken: ANALYSIS-ERROR
(exit 2), never a VIOLATION.
"""

from __future__ import annotations

import os
import shutil
import tempfile
import time
from concurrent.futures import ProcessPoolExecutor
from dataclasses import dataclass
from pathlib import Path
from typing import Optional

from .program import AnalysisError, Program
from .report import EVIDENCE_DIR, Report


@dataclass
class Mut:
    id: str
    file: str  # relative to the repo root, e.g. "ladim/tracker.py"
    old: str
    new: str
    expect: str = "fire"  # "fire" | "silent"
    rule: Optional[str] = None  # rule expected to fire (prefix match), None = any
    count: int = 1  # which occurrence (1-based) if `old` occurs several times; 0 = must be unique
    more: tuple = ()  # further (file, old, new) edits applied together (cooperating sites)


def _apply(src: str, m: Mut) -> Optional[str]:
    n = src.count(m.old)
    if n == 0:
        return None
    if m.count == 0:
        if n != 1:
            return None
        return src.replace(m.old, m.new)
    if n < m.count:
        return None
    idx = -1
    for _ in range(m.count):
        idx = src.find(m.old, idx + 1)
    return src[:idx] + m.new + src[idx + len(m.old) :]


def _run_one(args) -> dict:
    pid, modname, root, m = args
    import importlib

    src_path = Path(root) / m.file
    if not src_path.exists():
        return {"id": m.id, "status": "not-applicable", "why": f"{m.file} missing"}
    new = _apply(src_path.read_text(), m)
    if new is None:
        return {"id": m.id, "status": "not-applicable", "why": "anchor text not found in the current tree"}
    tmp = Path(tempfile.mkdtemp(prefix="sa_audit_"))
    try:
        shutil.copytree(Path(root) / "ladim", tmp / "ladim")
        if (Path(root) / "doc").is_dir() and m.file.startswith("doc/"):
            (tmp / Path(m.file).parent).mkdir(parents=True, exist_ok=True)
        else:
            # docs consulted by table rules
            docsrc = Path(root) / "doc" / "source" / "output.rst"
            if docsrc.exists():
                (tmp / "doc" / "source").mkdir(parents=True, exist_ok=True)
                shutil.copy(docsrc, tmp / "doc" / "source" / "output.rst")
        (tmp / m.file).write_text(new)
        for f2, old2, new2 in m.more:
            p2 = tmp / f2
            t2 = p2.read_text()
            if old2 not in t2:
                return {"id": m.id, "status": "not-applicable", "why": f"anchor text of a cooperating edit not found in {f2}"}
            p2.write_text(t2.replace(old2, new2, 1))
        try:
            import ast as _ast

            if m.file.endswith(".py"):
                _ast.parse(new)
        except SyntaxError as e:
            return {"id": m.id, "status": "bad-witness", "why": f"edit does not parse: {e}"}
        mod = importlib.import_module(modname)
        rep = Report(pid=pid, tier="quick")
        try:
            prog = Program(tmp)
            mod.run(prog, rep, "quick")
        except AnalysisError as e:
            # as in the driver: a violation established before the analysis stopped stands
            if not any(o.verdict == "violation" for o in rep.obligations):
                return {"id": m.id, "status": "analysis-error", "why": str(e), "expect": m.expect}
        except Exception as e:  # noqa: BLE001
            return {"id": m.id, "status": "analysis-error", "why": f"{type(e).__name__}: {e}", "expect": m.expect}
        from .report import load_known_findings

        known = {e["key"] for e in load_known_findings() if e["property"] == pid and e["status"] == "open"}
        viol = [o for o in rep.obligations if o.verdict == "violation" and o.key not in known]
        fired_rules = sorted({o.rule for o in viol})
        if m.expect == "fire":
            ok = bool(viol) and (m.rule is None or any(r.startswith(m.rule) for r in fired_rules))
        else:
            ok = not viol
        return {
            "id": m.id,
            "status": "ok" if ok else "mismatch",
            "expect": m.expect,
            "rule": m.rule,
            "fired": fired_rules,
            "first": (viol[0].what[:160] if viol else ""),
        }
    finally:
        shutil.rmtree(tmp, ignore_errors=True)


BENIGN_DIR = Path(__file__).resolve().parent.parent / "benign"
SEEDED_DIR = Path(__file__).resolve().parent.parent / "seeded"


def _patch_files(patch: Path) -> list[str]:
    return [l[6:].strip() for l in patch.read_text().splitlines() if l.startswith("+++ b/")]


def _run_benign(args) -> dict:
    """Apply one behaviour-preserving refactoring patch to a scratch copy; the rules must stay silent."""
    pid, modname, root, patch = args[:4]
    expect = args[4] if len(args) > 4 else "silent"
    import importlib
    import subprocess

    tmp = Path(tempfile.mkdtemp(prefix="sa_benign_"))
    name = ("benign:" + Path(patch).stem) if expect == "silent" else ("seeded:" + Path(patch).parent.name)
    try:
        shutil.copytree(Path(root) / "ladim", tmp / "ladim")
        docsrc = Path(root) / "doc" / "source" / "output.rst"
        if docsrc.exists():
            (tmp / "doc" / "source").mkdir(parents=True, exist_ok=True)
            shutil.copy(docsrc, tmp / "doc" / "source" / "output.rst")
        r = subprocess.run(["git", "apply", "--whitespace=nowarn", str(patch)], cwd=tmp, capture_output=True, text=True)
        if r.returncode != 0:
            return {"id": name, "status": "not-applicable", "why": "patch does not apply to the current tree"}
        mod = importlib.import_module(modname)
        rep = Report(pid=pid, tier="quick")
        try:
            prog = Program(tmp)
            mod.run(prog, rep, "quick")
        except AnalysisError as e:
            if not any(o.verdict == "violation" for o in rep.obligations):
                return {"id": name, "status": "mismatch", "expect": expect, "why": f"analysis error: {e}", "fired": []}
        except Exception as e:  # noqa: BLE001
            return {"id": name, "status": "mismatch", "expect": expect, "why": f"{type(e).__name__}: {e}", "fired": []}
        from .report import load_known_findings

        known = {e["key"] for e in load_known_findings() if e["property"] == pid and e["status"] == "open"}
        viol = [o for o in rep.obligations if o.verdict == "violation" and o.key not in known]
        good = (not viol) if expect == "silent" else bool(viol)
        return {"id": name, "status": "ok" if good else "mismatch", "expect": expect, "fired": sorted({o.rule for o in viol}), "first": (viol[0].what[:160] if viol else "")}
    finally:
        shutil.rmtree(tmp, ignore_errors=True)


def run_audit(pid: str, mod, prog: Program, rep: Report) -> int:
    muts = list(getattr(mod, "AUDIT", []))
    if callable(getattr(mod, "audit", None)) and not muts:
        muts = list(mod.audit())
    if not muts:
        return 0
    t0 = time.time()
    jobs = [(pid, mod.__name__, str(prog.root), m) for m in muts]
    # behaviour-preserving refactorings (benign corpus) that touch a file this property's rules consulted
    consulted = set(prog.digests().keys())
    bjobs = []
    if BENIGN_DIR.is_dir():
        for patch in sorted(BENIGN_DIR.glob("*.diff")):
            if set(_patch_files(patch)) & consulted:
                bjobs.append((pid, mod.__name__, str(prog.root), str(patch)))
    # seeded property-breaking changes recorded as detected by this property: must keep firing
    sjobs = []
    if SEEDED_DIR.is_dir():
        import json as _json

        for meta in sorted(SEEDED_DIR.glob("*/meta.json")):
            try:
                det = _json.loads(meta.read_text()).get("detected_by", [])
            except Exception:  # noqa: BLE001
                continue
            if any(d.split("(")[0] == pid and "analysis-error" not in d for d in det) and (meta.parent / "patch.diff").exists():
                sjobs.append((pid, mod.__name__, str(prog.root), str(meta.parent / "patch.diff"), "fire"))
    bjobs = bjobs + sjobs
    workers = min(16, len(jobs) + len(bjobs), os.cpu_count() or 1)
    if workers > 1:
        with ProcessPoolExecutor(max_workers=workers) as ex:
            results = list(ex.map(_run_one, jobs))
            results += list(ex.map(_run_benign, bjobs))
    else:
        results = [_run_one(j) for j in jobs] + [_run_benign(j) for j in bjobs]
    n_ok = sum(r["status"] == "ok" for r in results)
    n_na = sum(r["status"] == "not-applicable" for r in results)
    bad = [r for r in results if r["status"] not in ("ok", "not-applicable")]
    # an analysis-error on a breaking edit still means "not silently passed": accept for expect=fire
    really_bad = []
    for r in bad:
        if r["status"] == "analysis-error" and r.get("expect") == "fire":
            n_ok += 1
            r["status"] = "ok (analysis-error, fail-closed)"
        else:
            really_bad.append(r)
    print(
        f"[{pid}] sensitivity audit: {len(results)} witness edit(s): {n_ok} as expected, "
        f"{n_na} not applicable, {len(really_bad)} mismatching, {time.time() - t0:.1f}s"
    )
    for r in results:
        if r["status"] == "not-applicable":
            print(f"  audit n/a {r['id']}: {r['why']}")
    for r in really_bad:
        print(f"  AUDIT-MISMATCH {r['id']}: expected {r.get('expect')} {r.get('rule') or ''}, fired={r.get('fired')} {r.get('why', '')} {r.get('first', '')}")
    # append to the evidence file
    import json

    evp = EVIDENCE_DIR / f"{pid}.json"
    try:
        ev = json.loads(evp.read_text())
        ev["coverage"]["sensitivity_audit"] = {
            "witness_edits": len(results),
            "as_expected": n_ok,
            "not_applicable": n_na,
            "mismatching": len(really_bad),
            "breaking": sum(1 for m in muts if m.expect == "fire") + len(sjobs),
            "benign": sum(1 for m in muts if m.expect == "silent") + len(bjobs) - len(sjobs),
            "benign_refactoring_patches": len(bjobs) - len(sjobs),
            "seeded_changes_refired": len(sjobs),
            "results": results,
        }
        ev["wall_s"] = round(ev.get("wall_s", 0) + time.time() - t0, 3)
        evp.write_text(json.dumps(ev, indent=1, default=str))
    except Exception as e:  # noqa: BLE001
        print(f"  note: could not extend evidence: {e}")
    if really_bad:
        print(f"ANALYSIS-ERROR property={pid} sensitivity audit failed for {len(really_bad)} witness edit(s): the checker is broken, not the repository")
        return 2
    return 0
