"""Storage sharing (may-point-to) inside one function body.

Slots are local names, `self.attr` and `self.attr['key']`; a value is the set of allocation sites a slot may be
bound to.  Plain bindings (`a = b`, `self.f['x'] = self.f['y']`, `a = np.asarray(b)`, slices, `.T`, reshape/view)
keep the sites; arithmetic, calls and `.copy()` make a fresh site.  An in-place write (augmented assignment,
`slot[...] = `, `out=slot`) to a site that two different *store slots* may hold at that point is reported: the write
changes a value it was not addressed to.  Intra-procedural and path-insensitive at joins (union), so a report means
"on some syntactic path"; the callers list the store slots they care about.
"""

from __future__ import annotations

import ast
from ast import unparse
from typing import Callable, Optional

VIEW_FUNCS = {"np.asarray", "np.asanyarray", "np.ravel", "np.squeeze", "np.transpose", "np.atleast_1d", "numpy.asarray", "np.ascontiguousarray"}
VIEW_METHODS = {"reshape", "view", "ravel", "squeeze", "transpose", "swapaxes"}
VIEW_ATTRS = {"T", "real"}


def slot_of(e: ast.expr) -> Optional[str]:
    if isinstance(e, ast.Name):
        return e.id
    if isinstance(e, ast.Attribute) and isinstance(e.value, ast.Name) and e.value.id == "self":
        return f"self.{e.attr}"
    if isinstance(e, ast.Subscript) and isinstance(e.value, ast.Attribute) and isinstance(e.value.value, ast.Name) and e.value.value.id == "self":
        if isinstance(e.slice, ast.Constant):
            return f"self.{e.value.attr}[{e.slice.value!r}]"
        if not isinstance(e.slice, ast.Slice) and not _is_full_slice(e.slice):
            return f"self.{e.value.attr}[*]"
    return None


def _is_full_slice(s: ast.expr) -> bool:
    if isinstance(s, ast.Slice):
        return True
    if isinstance(s, ast.Constant) and s.value is Ellipsis:
        return True
    if isinstance(s, ast.Tuple):
        return all(_is_full_slice(x) for x in s.elts)
    return False


def _flat(v) -> frozenset:
    if isinstance(v, tuple):
        out: frozenset = frozenset()
        for x in v:
            out |= _flat(x)
        return out
    return v


def _union(a, b):
    if isinstance(a, tuple) and isinstance(b, tuple) and len(a) == len(b):
        return tuple(_union(x, y) for x, y in zip(a, b))
    return _flat(a) | _flat(b)


class Sharing:
    def __init__(self, is_store: Callable[[str], bool]):
        self.is_store = is_store
        self.reports: list[tuple[ast.AST, str, list[str]]] = []
        self._seen: set = set()

    # -- values
    def read(self, env: dict, slot: str) -> frozenset:
        if slot.endswith("[*]"):
            base = slot[:-3]
            out = set(_flat(env.get(slot, frozenset({("entry", slot)}))))
            for k, v in env.items():
                if k.startswith(base + "[") and k != slot:
                    out |= _flat(v)
            return frozenset(out)
        if slot in env:
            return env[slot]
        return frozenset({("entry", slot)})

    def ev(self, e: ast.expr, env: dict):
        s = slot_of(e)
        if s is not None:
            return self.read(env, s)
        if isinstance(e, ast.Subscript) and _is_full_slice(e.slice):
            return self.ev(e.value, env)  # a view of the same storage
        if isinstance(e, ast.Attribute) and e.attr in VIEW_ATTRS:
            return self.ev(e.value, env)
        if isinstance(e, ast.Call):
            fn = unparse(e.func)
            if fn in VIEW_FUNCS and e.args:
                return self.ev(e.args[0], env)
            if isinstance(e.func, ast.Attribute) and e.func.attr in VIEW_METHODS:
                return self.ev(e.func.value, env)
            if isinstance(e.func, ast.Attribute) and e.func.attr == "astype" and any(k.arg == "copy" for k in e.keywords):
                return _flat(self.ev(e.func.value, env)) | frozenset({("new", id(e))})
            for k in e.keywords:  # out=slot: in-place write through a ufunc
                if k.arg == "out":
                    self.write(k.value, env, e)
            return frozenset({("new", id(e))})
        if isinstance(e, ast.IfExp):
            return _union(self.ev(e.body, env), self.ev(e.orelse, env))
        if isinstance(e, ast.NamedExpr):
            v = self.ev(e.value, env)
            self.bind(e.target, v, env)
            return v
        if isinstance(e, (ast.Tuple, ast.List)):
            return tuple(self.ev(x, env) for x in e.elts)
        for c in ast.iter_child_nodes(e):  # out= inside nested expressions
            if isinstance(c, ast.expr):
                self.ev(c, env)
        return frozenset({("new", id(e))})

    def bind(self, t: ast.expr, v, env: dict) -> None:
        if isinstance(t, (ast.Tuple, ast.List)):
            for i, x in enumerate(t.elts):
                if isinstance(v, tuple) and i < len(v):
                    self.bind(x, v[i], env)
                else:
                    self.bind(x, frozenset({("new", id(t), i)}), env)
            return
        s = slot_of(t)
        if s is None:
            if isinstance(t, ast.Subscript):  # slot[...] = v / slot[mask] = v: writes the storage of slot
                self.write(t.value, env, t)
            return
        if s.endswith("[*]"):
            env[s] = self.read(env, s) | _flat(v)  # weak update
        else:
            env[s] = v

    def write(self, target: ast.expr, env: dict, at: ast.AST) -> None:
        sites = self.ev(target, env)
        if isinstance(sites, tuple):
            return
        tslot = slot_of(target)
        holders = sorted(k for k, v in env.items() if self.is_store(k) and not k.endswith("[*]") and (_flat(v) & sites))
        for site in sites:  # a store slot not rebound so far still holds its entry value
            if site[0] == "entry" and site[1] not in env and self.is_store(site[1]) and not site[1].endswith("[*]") and site[1] not in holders:
                holders.append(site[1])
        if tslot is not None and self.is_store(tslot) and not tslot.endswith("[*]") and tslot not in holders:
            holders.append(tslot)
        if len(holders) >= 2:
            key = (getattr(at, "lineno", 0), tuple(holders))
            if key not in self._seen:
                self._seen.add(key)
                self.reports.append((at, tslot or unparse(target), holders))

    # -- statements
    @staticmethod
    def join(a: Optional[dict], b: Optional[dict]) -> Optional[dict]:
        if a is None:
            return b
        if b is None:
            return a
        out = {}
        for k in set(a) | set(b):
            out[k] = _union(a.get(k, frozenset({("entry", k)})), b.get(k, frozenset({("entry", k)})))
        return out

    def block(self, stmts: list, env: Optional[dict]) -> Optional[dict]:
        for st in stmts:
            if env is None:
                return None
            env = self.stmt(st, env)
        return env

    def stmt(self, st: ast.stmt, env: dict) -> Optional[dict]:
        if isinstance(st, ast.Assign):
            v = self.ev(st.value, env)
            for t in st.targets:
                self.bind(t, v, env)
            return env
        if isinstance(st, ast.AnnAssign):
            if st.value is not None:
                self.bind(st.target, self.ev(st.value, env), env)
            return env
        if isinstance(st, ast.AugAssign):
            self.ev(st.value, env)
            self.write(st.target, env, st)
            return env
        if isinstance(st, ast.Expr):
            self.ev(st.value, env)
            return env
        if isinstance(st, (ast.Return, ast.Raise)):
            if isinstance(st, ast.Return) and st.value is not None:
                self.ev(st.value, env)
            return None
        if isinstance(st, ast.If):
            self.ev(st.test, env)
            a = self.block(st.body, dict(env))
            b = self.block(st.orelse, dict(env))
            return self.join(a, b)
        if isinstance(st, (ast.For, ast.While)):
            cur: Optional[dict] = dict(env)
            for _ in range(2):
                body_env = dict(cur) if cur is not None else None
                if body_env is not None and isinstance(st, ast.For):
                    self.bind(st.target, frozenset({("new", id(st))}), body_env)
                after = self.block(st.body, body_env)
                cur = self.join(cur, after)
            return self.block(st.orelse, cur) if st.orelse else cur
        if isinstance(st, ast.With):
            for it in st.items:
                v = self.ev(it.context_expr, env)
                if it.optional_vars is not None:
                    self.bind(it.optional_vars, v if not isinstance(v, tuple) else frozenset({("new", id(it))}), env)
            return self.block(st.body, env)
        if isinstance(st, ast.Try):
            a = self.block(st.body, dict(env))
            out = a
            for h in st.handlers:
                out = self.join(out, self.block(h.body, dict(self.join(env, a) or env)))
            if st.orelse and a is not None:
                out = self.join(out, self.block(st.orelse, dict(a)))
            if st.finalbody:
                out = self.block(st.finalbody, out if out is not None else dict(env))
            return out
        if isinstance(st, ast.Delete):
            for t in st.targets:
                s = slot_of(t)
                if s:
                    env.pop(s, None)
            return env
        return env  # pass, import, nested def, assert, global ...


def shared_writes(fn: ast.FunctionDef, is_store: Callable[[str], bool]) -> list[tuple[ast.AST, str, list[str]]]:
    sh = Sharing(is_store)
    sh.block(fn.body, {})
    return sh.reports


# ---------------------------------------------------------------------------------------------------------
# memo invalidation
def _self_attr(e) -> Optional[str]:
    if isinstance(e, ast.Attribute) and isinstance(e.value, ast.Name) and e.value.id == "self":
        return e.attr
    return None


def memo_attrs(fn: ast.FunctionDef) -> dict:
    """{attr: deps} for every `self.attr` used as a memo in `fn`: looked up under a guard with a non-constant key
    (`try: self.attr[k] ... except KeyError`, `k in self.attr`, `self.attr.get(k)`) and filled with the same key
    (`self.attr[k] = value`, setdefault) in the same function; deps = the other `self.x` / `self.x['k']` slots read."""
    stored, looked = {}, {}

    def key_text(k):
        return None if isinstance(k, ast.Constant) else unparse(k)

    for n in ast.walk(fn):
        if isinstance(n, ast.Subscript) and isinstance(n.ctx, ast.Store):
            a = _self_attr(n.value)
            if a and key_text(n.slice):
                stored.setdefault(a, set()).add(key_text(n.slice))
        if isinstance(n, ast.Call) and isinstance(n.func, ast.Attribute) and n.func.attr in ("get", "setdefault") and n.args:
            a = _self_attr(n.func.value)
            if a and key_text(n.args[0]):
                looked.setdefault(a, set()).add(key_text(n.args[0]))
                if n.func.attr == "setdefault":
                    stored.setdefault(a, set()).add(key_text(n.args[0]))
        if isinstance(n, ast.Compare) and len(n.ops) == 1 and isinstance(n.ops[0], (ast.In, ast.NotIn)):
            a = _self_attr(n.comparators[0])
            if a and key_text(n.left):
                looked.setdefault(a, set()).add(key_text(n.left))
        if isinstance(n, ast.Try) and any(h.type is None or "KeyError" in unparse(h.type) or "LookupError" in unparse(h.type) or unparse(h.type) == "Exception" for h in n.handlers):
            for b in n.body:
                for x in ast.walk(b):
                    if isinstance(x, ast.Subscript) and isinstance(x.ctx, ast.Load):
                        a = _self_attr(x.value)
                        if a and key_text(x.slice):
                            looked.setdefault(a, set()).add(key_text(x.slice))
    out = {}
    for m in set(stored) & set(looked):
        if not (stored[m] & looked[m]):
            continue
        deps = set()
        for n in ast.walk(fn):
            if isinstance(getattr(n, "ctx", None), ast.Load):
                s = slot_of(n) if isinstance(n, (ast.Attribute, ast.Subscript)) else None
                if s and s.startswith("self.") and not s.startswith(f"self.{m}") and s != "self":
                    deps.add(s)
        # `self.fields` read as a whole does not count once its entries are named
        out[m] = {d for d in deps if not any(o != d and o.startswith(d + "[") for o in deps)}
    return out


def _paths(stmts: list, limit: int = 4096):
    """Syntactic paths through a block as lists of simple statements (loops: zero or one iteration)."""
    paths = [([], False)]
    for st in stmts:
        new = []
        for p, done in paths:
            if done:
                new.append((p, True))
                continue
            if isinstance(st, ast.If):
                for sub, d in _paths(st.body, limit):
                    new.append((p + [st.test] + sub, d))
                for sub, d in _paths(st.orelse, limit):
                    new.append((p + [st.test] + sub, d))
            elif isinstance(st, (ast.For, ast.While)):
                new.append((p, False))
                for sub, d in _paths(st.body, limit):
                    new.append((p + sub, d))
            elif isinstance(st, ast.With):
                for sub, d in _paths(st.body, limit):
                    new.append((p + sub, d))
            elif isinstance(st, ast.Try):
                for sub, d in _paths(st.body + st.orelse + st.finalbody, limit):
                    new.append((p + sub, d))
                for h in st.handlers:
                    for sub, d in _paths(h.body + st.finalbody, limit):
                        new.append((p + sub, d))
            elif isinstance(st, ast.Raise):
                continue  # the call fails: nothing is answered from the memo afterwards
            elif isinstance(st, ast.Return):
                new.append((p + [st], True))
            else:
                new.append((p + [st], False))
        paths = new
        if len(paths) > limit:
            raise OverflowError("too many paths")
    return paths


def stale_memo_paths(fn: ast.FunctionDef, memo: str, deps: set) -> list:
    """Paths of `fn` that write one of `deps` and leave the memo as it was: [(first write node, slot)]."""
    bad = []
    for p, _ in _paths(fn.body):
        wrote = None
        inval = False
        for st in p:
            for n in ast.walk(st):
                if isinstance(n, (ast.Assign, ast.AugAssign, ast.AnnAssign, ast.Delete)):
                    tg = n.targets if isinstance(n, (ast.Assign, ast.Delete)) else [n.target]
                    for t in tg:
                        for el in t.elts if isinstance(t, (ast.Tuple, ast.List)) else [t]:
                            s = slot_of(el) if isinstance(el, (ast.Attribute, ast.Subscript)) else None
                            if s is None and isinstance(el, ast.Subscript):
                                s = slot_of(el.value) if isinstance(el.value, (ast.Attribute, ast.Subscript)) else None
                            if not s:
                                continue
                            if s == f"self.{memo}" or s.startswith(f"self.{memo}["):
                                if s == f"self.{memo}" or isinstance(n, ast.Delete):
                                    inval = True
                                continue
                            hit = s in deps or (s.endswith("[*]") and any(d.startswith(s[:-3] + "[") for d in deps)) or any(d.startswith(s + "[") for d in deps)
                            if hit and wrote is None:
                                wrote = (n, s)
                if isinstance(n, ast.Call) and isinstance(n.func, ast.Attribute) and n.func.attr in ("clear", "pop", "popitem") and _self_attr(n.func.value) == memo:
                    inval = True
        if wrote is not None and not inval:
            bad.append(wrote)
    seen, out = set(), []
    for n, s in bad:
        if (n.lineno, s) not in seen:
            seen.add((n.lineno, s))
            out.append((n, s))
    return out
