"""Per-property manifest entries (source for tools_manifest.py)."""

CHECKS = {
    "C01": dict(
        level="other",
        text="Decides a necessary clause, not the behaviour: each advection scheme (EF, RK2, RK4, get_velocity1/2/4) is reduced by abstract interpretation in a rational-normal-form domain to its Butcher tableau and the order conditions of order 1/2/4 are evaluated exactly; the stored position is X + U*dt/dx per axis. A scheme that fails them cannot converge with its order for any field; convergence on real fields is not decided.",
        note="Trusted: CPython ast, Fraction arithmetic, the checker. Assumed: clip is the identity in the interior; the velocity oracle is exact (C02/C03). Not decided: observed convergence, clipping, land.",
        technique="static analysis: abstract interpretation (rational normal forms) + Butcher tableau extraction + exact order conditions",
    ),
    "C02": dict(
        level="other",
        text="Decides structural necessary clauses, not numerical agreement: trilinear's node weights equal the tensor-product weights as polynomial identities (8-node stencil, partition of unity, linear precision, convexity); every sampling site indexes its array at X - (slice start + stagger) with slices and read layouts taken from the source; the level lookup interpolates -Z linearly and holds the end levels; returned velocities carry the land-mask factor built from adjacent rho-masks; packing uses the variable's own scale/offset.",
        note="Trusted: ROMS C-grid convention (u half a cell east, v half a cell north), numpy/netCDF4 slicing semantics, CPython ast, the checker. Not decided: values on real files.",
        technique="static analysis: abstract interpretation (rational normal forms with array-element atoms) + index-frame agreement + slice algebra",
    ),
    "C03": dict(
        level="other",
        text="Decides the hand-over algebra for every frame spacing and file layout: Forcing.__init__ and each path of Forcing.update are evaluated abstractly (frame reads opaque functions of the requested step) and the post-state of (u, u_new, dU) is compared with the inductive invariant of linear time interpolation; the file holding the requested step is selected by identity on every path to a read; steps are sorted before use; velocity(fractional_step=c) samples u + c*dU for each c the schemes use. Values on real data are not decided.",
        note="Trusted: CPython ast, Fraction arithmetic, the checker. Assumed: frames on the step lattice; time2step exact there (C13).",
        technique="static analysis: inductive invariant checked by abstract interpretation of each path (rational normal forms) + dominance of file selection over reads + typestate SORTED",
    ),
    "C10": dict(
        level="other",
        text="Decides time-mirror symmetry of each direction-dependent computation: TimeKeeper methods evaluated abstractly with time_reversal True equal the T-image (instants and velocities negated) of the forward evaluation; every comparison between instants in the release module sits in a time_reversal conditional with mirrored arms; tick spacing, output period and both velocity components change sign; sorted steps, file selection by identity and release-sequence alignment are reused. Equality of two complete runs is not decided.",
        note="Trusted: the kind table (instant / step length / count / T-odd velocity), CPython ast, the checker. Reversed warm starts are outside the quantifier.",
        technique="static analysis: sibling (time-mirror) comparison of branch arms in normal form + enumeration of unmirrored instant comparisons",
    ),
    "C13": dict(
        level="other",
        text="Decides the conversion algebra on the step lattice: the clock invariant time == step2time(step) holds at construction and is preserved by update in both directions; Nsteps = floor(|stop-start|/dt); time2step(step2time(n)) = n; step2nctime/nctime = (instant - reference)/unit; ISO letters, [value, unit] and unit_table denote the numpy unit codes of the same meaning; normalize_period returns a period or raises on every path. numpy's calendar arithmetic is trusted.",
        note="Trusted: numpy datetime64/timedelta64 arithmetic in seconds, re._parser, CPython ast, the checker.",
        technique="static analysis: abstract interpretation (rational normal forms with floor atoms) + regex structure via re._parser + exhaustive path enumeration (totality)",
    ),
    "C11": dict(
        level="other",
        text="Decides the second-moment algebra and the independence structure, not the sampled distribution: with each rng.normal call replaced by a unit-variance atom the squared coefficient of the draw in the stored position equals 2*D*dt/dx^2 (2*Dz*dt), there is no constant term, U/V/W use distinct per-call draws of the current particle count, and no draw is made when both coefficients are zero.",
        note="Trusted: numpy Generator.normal(size=n) yields n independent N(0,1); CPython ast; the checker. Not decided: sample statistics, land interaction.",
        technique="static analysis: abstract interpretation (rational normal forms with half-integer monomial powers) + control-dependence of RNG uses",
    ),
    "C19": dict(
        level="proof",
        text="Exhaustive path enumeration of Model.update, main, Model.finish, the warm block, load_module and the role constructors; on every path the word of resolved role-method calls equals the step protocol. The functions are small and loop-free apart from two literal-list loops, so the enumeration is complete: a proof of the ordering/multiplicity clause for the shipped modules.",
        note="Trusted: CPython ast; role typing from init_module's literal tables; this checker. Assumed: plug-in modules do what their update/close say (their bodies are user code).",
        technique="static analysis: role-typed call resolution + exhaustive path enumeration with event words (ordering/multiplicity automaton)",
    ),
}

_PENDING = "check not built yet in this session (static rules planned in DESIGN.md section 3)"
NOT_APPLICABLE = {f"C{n:02d}": _PENDING for n in range(1, 21) if f"C{n:02d}" not in CHECKS}
