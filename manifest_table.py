"""Per-property manifest entries (source for tools_manifest.py)."""

CHECKS = {
    "C19": dict(
        level="proof",
        text="Exhaustive path enumeration of Model.update, main, Model.finish, the warm block, load_module and the role constructors; on every path the word of resolved role-method calls equals the step protocol. The functions are small and loop-free apart from two literal-list loops, so the enumeration is complete: a proof of the ordering/multiplicity clause for the shipped modules.",
        note="Trusted: CPython ast; role typing from init_module's literal tables; this checker. Assumed: plug-in modules do what their update/close say (their bodies are user code).",
        technique="static analysis: role-typed call resolution + exhaustive path enumeration with event words (ordering/multiplicity automaton)",
    ),
}

_PENDING = "check not built yet in this session (static rules planned in DESIGN.md section 3)"
NOT_APPLICABLE = {f"C{n:02d}": _PENDING for n in range(1, 21) if f"C{n:02d}" not in CHECKS}
