"""Per-property manifest entries (source for tools_manifest.py)."""

CHECKS = {
    "C01": dict(
        level="other",
        text="Decides a necessary clause, not the behaviour: each advection scheme (EF, RK2, RK4, get_velocity1/2/4) is reduced by abstract interpretation in a rational-normal-form domain to its Butcher tableau and the order conditions of order 1/2/4 are evaluated exactly; the stored position is X + U*dt/dx per axis. A scheme that fails them cannot converge with its order for any field; convergence on real fields is not decided.",
        note="Trusted: CPython ast, Fraction arithmetic, the checker. Assumed: clip is the identity in the interior; the velocity oracle is exact (C02/C03). Not decided: observed convergence, clipping, land.",
        technique="static analysis: abstract interpretation (rational normal forms) + Butcher tableau extraction + exact order conditions",
    ),
    "C11": dict(
        level="other",
        text="Decides the second-moment algebra and the independence structure, not the sampled distribution: with each rng.normal call replaced by a unit-variance atom the squared coefficient of the draw in the stored position equals 2*D*dt/dx^2 (2*Dz*dt), there is no constant term, U/V/W use distinct per-call draws of the current particle count, and no draw is made when both coefficients are zero.",
        note="Trusted: numpy Generator.normal(size=n) yields n independent N(0,1); CPython ast; the checker. Not decided: sample statistics, land interaction.",
        technique="static analysis: abstract interpretation (rational normal forms with half-integer monomial powers) + control-dependence of RNG uses",
    ),
    "C19": dict(
        level="proof",
        text="Exhaustive path enumeration of Model.update, main, Model.finish, the warm block, load_module and the role constructors; on every path the word of resolved role-method calls equals the step protocol. The functions are small and loop-free apart from two literal-list loops, so the enumeration is complete: a proof of the ordering/multiplicity clause for the shipped modules.",
        note="Trusted: CPython ast; role typing from init_module's literal tables; this checker. Assumed: plug-in modules do what their update/close say (their bodies are user code).",
        technique="static analysis: role-typed call resolution + exhaustive path enumeration with event words (ordering/multiplicity automaton)",
    ),
}

_PENDING = "check not built yet in this session (static rules planned in DESIGN.md section 3)"
NOT_APPLICABLE = {f"C{n:02d}": _PENDING for n in range(1, 21) if f"C{n:02d}" not in CHECKS}
