"""Per-property manifest entries (source for tools_manifest.py)."""

CHECKS = {
    "C01": dict(
        level="other",
        text="Decides a necessary clause, not the behaviour: each advection scheme (EF, RK2, RK4, get_velocity1/2/4) is reduced by abstract interpretation in a rational-normal-form domain to its Butcher tableau and the order conditions of order 1/2/4 are evaluated exactly; the stored position is X + U*dt/dx per axis. A scheme that fails them cannot converge with its order for any field; convergence on real fields is not decided.",
        note="Trusted: CPython ast, Fraction arithmetic, the checker. Assumed: clip is the identity in the interior; the velocity oracle is exact (C02/C03). Not decided: observed convergence, clipping, land.",
        technique="static analysis: abstract interpretation (rational normal forms) + Butcher tableau extraction + exact order conditions",
    ),
    "C02": dict(
        level="other",
        text="Decides structural necessary clauses, not numerical agreement: trilinear's node weights equal the tensor-product weights as polynomial identities (8-node stencil, partition of unity, linear precision, convexity); every sampling site indexes its array at X - (slice start + stagger) with slices and read layouts taken from the source; the level lookup interpolates -Z linearly and holds the end levels; returned velocities carry the land-mask factor built from adjacent rho-masks; packing uses the variable's own scale/offset.",
        note="Trusted: ROMS C-grid convention (u half a cell east, v half a cell north), numpy/netCDF4 slicing semantics, CPython ast, the checker. Not decided: values on real files.",
        technique="static analysis: abstract interpretation (rational normal forms with array-element atoms) + index-frame agreement + slice algebra",
    ),
    "C03": dict(
        level="other",
        text="Decides the hand-over algebra for every frame spacing and file layout: Forcing.__init__ and each path of Forcing.update are evaluated abstractly (frame reads opaque functions of the requested step) and the post-state of (u, u_new, dU) is compared with the inductive invariant of linear time interpolation; the file holding the requested step is selected by identity on every path to a read; steps are sorted before use; velocity(fractional_step=c) samples u + c*dU for each c the schemes use; an in-place write to a field array never reaches storage two entries of self.fields may share (points-to analysis per method); a value memoised between calls is dropped on every path that writes its inputs. Values on real data are not decided.",
        note="Trusted: CPython ast, Fraction arithmetic, the checker. Assumed: frames on the step lattice; time2step exact there (C13).",
        technique="static analysis: inductive invariant checked by abstract interpretation of each path (rational normal forms) + dominance of file selection over reads + typestate SORTED + flow-sensitive may-point-to analysis of field storage + path enumeration for memo invalidation",
    ),
    "C04": dict(
        level="other",
        text="Decides necessary structural clauses of release accounting: window filters are inclusive at the start and mirrored; times / steps / _B are computed after the last filter, element-wise and order-compatible under tabulated pandas order semantics; update releases iff the current step is a release step and __next__ advances the cursor exactly once on every returning path; rows are repeated by their own mult column; lon/lat pair with X/Y; the continuous pipeline is ticks anchored at the first file time, forward fill, explode; every pandas keyword used exists in the installed pandas (inspect.signature). pandas' run-time semantics are not decided.",
        note="Trusted: pandas order semantics table (DESIGN A.4); inspect.signature of the installed pandas; CPython ast.",
        technique="static analysis: typestate/ordering of the release pipeline + order-class table for parallel sequences + path enumeration of the cursor + library-signature conformance",
    ),
    "C05": dict(
        level="proof",
        text="Induction step of the State invariant (equal lengths, pid strictly increasing, max(pid) < npid, npid monotone) for every operation in ladim/ that can touch the state: writers of pid/npid enumerated over all modules; State.append evaluated abstractly and its post-state compared with pid ++ arange(npid, npid+n), npid+n, var ++ n values; compactify filters exactly the instance variables with one pre-bound alive mask; every other store is an element-wise function of the current array; output applies no permutation. All obligations are enumerated and discharged.",
        note="Trusted: numpy semantics of concatenate / boolean indexing / broadcast_to; CPython ast; the checker. Assumed: plug-in IBMs use the State API.",
        technique="static analysis: who-may-write enumeration over the resolved program + abstract post-state of append/compactify (inductive invariant)",
    ),
    "C06": dict(
        level="other",
        text="Decides the indexing discipline of the output, not value equality: Output.write is evaluated abstractly per layout and per outcome of the file-finished tests; every netCDF store (variable, index, value) and the post-state of the four counters are compared with the contiguous-ragged-array layout; dense writes must mask both sides with alive; particle-variable extent is the release counter; time value/units agree; reader and documentation formulas agree with the writer.",
        note="Trusted: netCDF4 slice assignment on unlimited dimensions; CPython ast; the checker. Not decided: encoding precision, library behaviour.",
        technique="static analysis: abstract interpretation of Output.write (symbolic cursors) + table agreement writer/reader/doc snippet",
    ),
    "C07": dict(
        level="other",
        text="Decides the schedule arithmetic: the write trigger is step % P == 0 with P from the positive period; from the initial step, the clock increment, the main loop's trip count, the gate step >= 0 and the trigger a closed form for the number of writes is derived (cold ceil(N/P), warm floor(N/P)) and compared with the expression assigned to num_records after counting rewrites under the lattice assumption; roll-over sequence, file numbering and main-loop shape are checked. NetCDF library behaviour is not decided.",
        note="Trusted: counting rewrites (DESIGN A.3); duration = N*dt, period = P*dt; CPython ast, re._parser.",
        technique="static analysis: compiler-style trip-count analysis with floor/ceil rewriting + abstract evaluation of the roll-over",
    ),
    "C08": dict(
        level="other",
        text="Decides wiring obligations of a restart, not equality of two runs: restored variable set and slices agree with the writer, missing values stop the run, the restored release counter must equal the writer's counter (one known finding), configure_v2's warm block sets start = last record time / release.warm_start_file / variables / skip_initial, the catch-up step equals the step protocol minus clock and output, start-time release rows are excluded strictly, file numbering continues, time-typed variables invert the writer's unit conversion.",
        note="Trusted: the warm-start file was written by this model; CPython ast. Known finding F7 (npid = max(pid on file)+1) is listed in known_findings.json.",
        technique="static analysis: writer/reader table agreement + provenance of the restored counter + event-word comparison of the catch-up step",
    ),
    "C09": dict(
        level="proof",
        text="Inductive invariant alive => in grid and at sea: Tracker.update is evaluated abstractly and the stored position, alive and active flags are case-analysed exhaustively over (candidate in grid, particle active, land-test outcomes); the land mask is never indexed with a raw out-of-grid candidate; alive is only cleared; writers of alive and X/Y are enumerated over ladim/; ingrid is a strict box inside the velocity domain, atsea the mask of the particle's own cell.",
        note="Trusted: numpy masked assignment is element-wise; CPython ast; the checker. Assumed: release positions valid; plug-in IBMs only clear alive.",
        technique="static analysis: abstract interpretation with boolean case analysis of masked stores (typestate kill -> restore -> land test -> store) + writer enumeration",
    ),
    "C12": dict(
        level="other",
        text="Decides algebraic clauses: every stretching curve takes -1 at S=-1 and 0 at S=0, every transform maps the end points to -h and 0 (opaque sinh/cosh/tanh/exp atoms with odd/even/zero rewrites); sdepth and s_stretch use the same unstretched coordinate; the level lookup interpolates -Z linearly between bracketing levels and holds the end levels; rho/w staggers are wired consistently; unknown options raise. Monotonicity/interleaving of the curves between the end points is not decided (seeded change C12-vs2-blend-swapped is a documented miss).",
        note="Trusted: left-bisect semantics of searchsorted; CPython ast; the checker. Assumed: at least two levels.",
        technique="static analysis: abstract interpretation (rational normal forms with elementary-function atoms) + branch-region analysis of the level lookup",
    ),
    "C14": dict(
        level="other",
        text="Decides structural clauses of independence: per-particle caches of the forcing object are not used across a length-changing operation on any path of Model.update / the warm block (one known finding); kernels index per-particle arrays by the loop variable only; no cross-particle reduction on the numeric update path; the gridded fields evolve independently of the particle list; clock, glob, RNG and set-iteration sites are enumerated and confined; per-step modules read the clock through step/dt only; per-particle arrays paired element by element (arithmetic, masked stores, compiled kernels) carry the same particle-list tag (index-space domain); per-particle attributes are assigned in the step before they are read. Bit-for-bit equality of paired runs is not decided.",
        note="Trusted: role-typed call resolution; CPython ast. Known finding F8 (compactify between force.update and tracker.update) is listed in known_findings.json.",
        technique="static analysis: effect summaries (LEN-CHANGE / CACHE-DEF / CACHE-USE) over the resolved call graph + per-index independence lint + control-dependence of field stores + abstract interpretation in a particle-index-space domain + definite assignment + clock taint",
    ),
    "C15": dict(
        level="proof",
        text="Interval proof in a symbolic-interval domain (h > 0 symbolic): with Z0 in [0, h] and total vertical displacement in (-h, h) the value Tracker.update stores as Z lies in [0, h] for every switch combination; the masked reflection statements are interpreted with refinement of the compared variable so their formulas and masks are part of the proof; h is the depth at the step-start position; with both switches off Z is not written. All obligations discharged.",
        note="Trusted: interval transfer functions (DESIGN A.2); numpy masked assignment is element-wise; CPython ast. Premise of the property: |displacement| < h.",
        technique="static analysis: abstract interpretation in a symbolic-interval domain with mask refinement",
    ),
    "C16": dict(
        level="other",
        text="Decides that every conversion uses matching frames and that a fixed point of bilin_inv solves the interpolation equations: sample2D weights are tensor-product identities (with mask renormalisation, undefined and outside substitutes), Jacobian entries equal symbolic derivatives of the bilinear estimate, the Newton update solves J*d = residual, xy2ll/ll2xy use the offsets and axis order of the slices lon/lat are cut with, numeric optionals are tested with `is None`. Convergence of the iteration is not decided.",
        note="Trusted: numpy truncation/astype semantics; polynomial differentiation in the normal-form domain; CPython ast; the checker.",
        technique="static analysis: abstract interpretation (rational normal forms, symbolic differentiation) + Engler-style optional-discipline contradiction rule",
    ),
    "C20": dict(
        level="other",
        text="Decides presence, operands, termination and placement of the start-up guards: for each fault class of the property a guard is located by the operands of its condition, must leave by raise on all paths, must be reachable from configure or a role constructor while Output.write is reachable only from Model.update, and no handler may swallow the stop. Faults outside the listed classes are not decided.",
        note="Trusted: library calls raise on missing/unreadable files; SystemExit propagates out of main; CPython ast; resolved call graph.",
        technique="static analysis: fault-class table matched on condition operands + must-terminate path check + call-graph reachability + handler lint",
    ),
    "C10": dict(
        level="other",
        text="Decides time-mirror symmetry of each direction-dependent computation: TimeKeeper methods evaluated abstractly with time_reversal True equal the T-image (instants and velocities negated) of the forward evaluation; every comparison between instants in the release module sits in a time_reversal conditional with mirrored arms; tick spacing, output period and both velocity components change sign; sorted steps, file selection by identity and release-sequence alignment are reused. Equality of two complete runs is not decided.",
        note="Trusted: the kind table (instant / step length / count / T-odd velocity), CPython ast, the checker. Reversed warm starts are outside the quantifier.",
        technique="static analysis: sibling (time-mirror) comparison of branch arms in normal form + enumeration of unmirrored instant comparisons",
    ),
    "C13": dict(
        level="other",
        text="Decides the conversion algebra on the step lattice: the clock invariant time == step2time(step) holds at construction and is preserved by update in both directions; Nsteps = floor(|stop-start|/dt); time2step(step2time(n)) = n; step2nctime/nctime = (instant - reference)/unit; ISO letters, [value, unit] and unit_table denote the numpy unit codes of the same meaning; normalize_period returns a period or raises on every path. numpy's calendar arithmetic is trusted.",
        note="Trusted: numpy datetime64/timedelta64 arithmetic in seconds, re._parser, CPython ast, the checker.",
        technique="static analysis: abstract interpretation (rational normal forms with floor atoms) + regex structure via re._parser + exhaustive path enumeration (totality)",
    ),
    "C11": dict(
        level="other",
        text="Decides the second-moment algebra and the independence structure, not the sampled distribution: with each rng.normal call replaced by a unit-variance atom the squared coefficient of the draw in the stored position equals 2*D*dt/dx^2 (2*Dz*dt), there is no constant term, U/V/W use distinct per-call draws of the current particle count, and no draw is made when both coefficients are zero; Grid.metric computes the metric from the positions of this call on every path (no memo).",
        note="Trusted: numpy Generator.normal(size=n) yields n independent N(0,1); CPython ast; the checker. Not decided: sample statistics, land interaction.",
        technique="static analysis: abstract interpretation (rational normal forms with half-integer monomial powers) + control-dependence of RNG uses + definite assignment of argument-derived attributes",
    ),
    "C17": dict(
        level="proof",
        text="Symbolic interval proof: for every subscript reached from the model's entry points (Forcing.update, force_particles, Tracker.update, EF/RK2/RK4 -> velocity -> sample3DUV -> sample3D -> trilinear, z2s -> z2s_kernel, Grid.metric/depth/atsea) and every axis, 0 <= index <= length-1; shapes, slices, valid region, stage margins, clip's effect and the level range are derived from the source. ~400 obligations, all discharged under the stated assumptions A1-A3; the unenforced assumption A3 (>= 2 levels) is a known finding.",
        note="Trusted: interval transfer functions; numba does not check bounds; CPython ast. Assumed: A1 state positions valid (C09), A2 forcing and grid level counts agree, A3 >= 2 levels (known finding F14), lemma L1 from C09 R09.1.",
        technique="static analysis: abstract interpretation in a symbolic-interval domain over the resolved call chains (array-bounds proof)",
    ),
    "C18": dict(
        level="other",
        text="Decides table agreement: every key the two normalisers write is a constructor parameter of the default class of its role; required parameters and the sections Model.__init__ reads are produced; optional sections are defaulted and optional keys never hard-required; YAML, TOML and v1 converge on one configuration object; the wildcard default of the grid file is the sorted first match in both versions; the v1 vocabulary maps to v2 keys of the same meaning. Equality of run outputs is not decided.",
        note="Trusted: constructor signatures read from the source; yaml/tomli yield equal dicts for equal content; CPython ast.",
        technique="static analysis: table agreement (config keys vs constructor signatures) + optional-discipline contradiction rule",
    ),
    "C19": dict(
        level="proof",
        text="Exhaustive path enumeration of Model.update, main, Model.finish, the warm block, load_module and the role constructors; on every path the word of resolved role-method calls equals the step protocol. The functions are small and loop-free apart from two literal-list loops, so the enumeration is complete: a proof of the ordering/multiplicity clause for the shipped modules.",
        note="Trusted: CPython ast; role typing from init_module's literal tables; this checker. Assumed: plug-in modules do what their update/close say (their bodies are user code).",
        technique="static analysis: role-typed call resolution + exhaustive path enumeration with event words (ordering/multiplicity automaton)",
    ),
}

_PENDING = "check not built yet in this session (static rules planned in DESIGN.md section 3)"
NOT_APPLICABLE = {f"C{n:02d}": _PENDING for n in range(1, 21) if f"C{n:02d}" not in CHECKS}
